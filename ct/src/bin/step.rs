//! Instruction-pointer tracer for binaries valgrind cannot run (AVX-512 IFMA): runs the trace
//! subject under ptrace, breaks at `ct_marker_begin`, single-steps until `ct_marker_end` is
//! entered, and hashes the sequence of instruction pointers (relative to the load base).
//!
//!   ct-step <begin-offset-hex> <end-offset-hex> <subject> <op> <secret-file>
//!
//! prints `<sha512-prefix-hex> <instructions>`.  Data addresses are not observed.

use sha2::{Digest, Sha512};
use std::ffi::CString;

const RIP_OFFSET: usize = 16 * 8; // offsetof(struct user_regs_struct, rip)
const MAX_STEPS: u64 = 20_000_000;

fn wait_stop(pid: i32) -> i32 {
    let mut status = 0i32;
    unsafe {
        libc::waitpid(pid, &mut status, 0);
    }
    status
}

fn main() {
    let a: Vec<String> = std::env::args().collect();
    if a.len() != 6 {
        eprintln!("usage: ct-step <begin-off-hex> <end-off-hex> <subject> <op> <secret-file>");
        std::process::exit(2);
    }
    let begin_off = u64::from_str_radix(&a[1], 16).unwrap();
    let end_off = u64::from_str_radix(&a[2], 16).unwrap();
    let prog = CString::new(a[3].clone()).unwrap();
    let args: Vec<CString> = a[3..].iter().map(|s| CString::new(s.clone()).unwrap()).collect();
    let mut argv: Vec<*const libc::c_char> = args.iter().map(|c| c.as_ptr()).collect();
    argv.push(std::ptr::null());
    let envp: [*const libc::c_char; 1] = [std::ptr::null()];
    unsafe {
        let pid = libc::fork();
        if pid == 0 {
            libc::personality(libc::ADDR_NO_RANDOMIZE as libc::c_ulong);
            libc::ptrace(libc::PTRACE_TRACEME, 0, 0, 0);
            libc::execve(prog.as_ptr(), argv.as_ptr(), envp.as_ptr());
            libc::_exit(127);
        }
        let st = wait_stop(pid);
        if !libc::WIFSTOPPED(st) {
            eprintln!("child did not stop at exec");
            std::process::exit(3);
        }
        // load base of the subject: first mapping of the executable
        let maps = std::fs::read_to_string(format!("/proc/{}/maps", pid)).unwrap();
        let exe = std::fs::canonicalize(&a[3]).unwrap();
        let exe = exe.to_string_lossy().to_string();
        let base = maps
            .lines()
            .find(|l| l.ends_with(&exe))
            .and_then(|l| l.split('-').next())
            .and_then(|h| u64::from_str_radix(h, 16).ok())
            .expect("load base");
        let begin = base + begin_off;
        let end = base + end_off;
        // breakpoint at the begin marker
        let orig = libc::ptrace(libc::PTRACE_PEEKTEXT, pid, begin as *mut libc::c_void, 0);
        let patched = (orig & !0xff) | 0xcc;
        libc::ptrace(libc::PTRACE_POKETEXT, pid, begin as *mut libc::c_void, patched);
        libc::ptrace(libc::PTRACE_CONT, pid, 0, 0);
        let st = wait_stop(pid);
        if !libc::WIFSTOPPED(st) || libc::WSTOPSIG(st) != libc::SIGTRAP {
            eprintln!("did not reach the begin marker (status {:#x})", st);
            std::process::exit(3);
        }
        libc::ptrace(libc::PTRACE_POKETEXT, pid, begin as *mut libc::c_void, orig);
        libc::ptrace(libc::PTRACE_POKEUSER, pid, RIP_OFFSET as *mut libc::c_void, begin);
        // single-step until the end marker is entered
        let mut h = Sha512::new();
        let mut n = 0u64;
        loop {
            libc::ptrace(libc::PTRACE_SINGLESTEP, pid, 0, 0);
            let st = wait_stop(pid);
            if !libc::WIFSTOPPED(st) {
                eprintln!("subject exited inside the traced region (status {:#x})", st);
                std::process::exit(3);
            }
            let rip = libc::ptrace(libc::PTRACE_PEEKUSER, pid, RIP_OFFSET as *mut libc::c_void, 0) as u64;
            if rip == end {
                break;
            }
            // addresses inside the subject are hashed relative to its base; library / vdso
            // addresses (none expected: the subject is mostly static Rust code plus libc) as is
            let rel = rip.wrapping_sub(base);
            h.update(rel.to_le_bytes());
            n += 1;
            if n > MAX_STEPS {
                eprintln!("region exceeds {} steps", MAX_STEPS);
                libc::kill(pid, libc::SIGKILL);
                std::process::exit(3);
            }
        }
        libc::ptrace(libc::PTRACE_CONT, pid, 0, 0);
        let _ = wait_stop(pid);
        let d = h.finalize();
        let hex: String = d[..16].iter().map(|x| format!("{:02x}", x)).collect();
        println!("{} {}", hex, n);
    }
}
