//! Trace subject for C10: performs ONE operation between two recognisable markers.
//!
//!   ct-subject <op> <secret-file>
//!
//! The secret is read as 64 raw bytes (no secret-dependent parsing).  Lazily initialised
//! globals are warmed up with a public value first.  The markers are sequences of volatile
//! stores with a unique size pattern (1,2,4,8,4,2,1 / 8,4,2,1,2,4,8), which the trace cutter
//! recognises without needing symbol addresses.  Built WITHOUT the verification cfg: the
//! artefact traced is what a user gets.

use curve25519_dalek::constants::ED25519_BASEPOINT_POINT;
use curve25519_dalek::edwards::EdwardsPoint;
use curve25519_dalek::montgomery::MontgomeryPoint;
use curve25519_dalek::ristretto::RistrettoPoint;
use curve25519_dalek::scalar::Scalar;
use curve25519_dalek::traits::{MultiscalarMul, VartimeMultiscalarMul};
use ed25519_dalek::{Signer, SigningKey};
use std::hint::black_box;
use subtle_shim::ct_eq_points;

mod subtle_shim {
    use curve25519_dalek::edwards::EdwardsPoint;
    pub fn ct_eq_points(a: &EdwardsPoint, b: &EdwardsPoint) -> bool {
        // EdwardsPoint == is documented constant-time (ct_eq)
        a == b
    }
}

#[no_mangle]
#[inline(never)]
pub extern "C" fn ct_marker_begin(slot: &mut [u64; 2]) {
    unsafe {
        let p = slot.as_mut_ptr() as *mut u8;
        std::ptr::write_volatile(p, 1u8);
        std::ptr::write_volatile(p as *mut u16, 2u16);
        std::ptr::write_volatile(p as *mut u32, 4u32);
        std::ptr::write_volatile(p as *mut u64, 8u64);
        std::ptr::write_volatile(p as *mut u32, 4u32);
        std::ptr::write_volatile(p as *mut u16, 2u16);
        std::ptr::write_volatile(p, 1u8);
    }
}

#[no_mangle]
#[inline(never)]
pub extern "C" fn ct_marker_end(slot: &mut [u64; 2]) {
    unsafe {
        let p = slot.as_mut_ptr() as *mut u8;
        std::ptr::write_volatile(p as *mut u64, 8u64);
        std::ptr::write_volatile(p as *mut u32, 4u32);
        std::ptr::write_volatile(p as *mut u16, 2u16);
        std::ptr::write_volatile(p, 1u8);
        std::ptr::write_volatile(p as *mut u16, 2u16);
        std::ptr::write_volatile(p as *mut u32, 4u32);
        std::ptr::write_volatile(p as *mut u64, 8u64);
    }
}

fn a32(b: &[u8]) -> [u8; 32] {
    let mut a = [0u8; 32];
    a.copy_from_slice(&b[..32]);
    a
}

/// Run `f` between the markers, with barriers so that nothing moves across them.
macro_rules! traced {
    ($slot:expr, $body:expr) => {{
        let t = black_box(TRACED.load(std::sync::atomic::Ordering::Relaxed));
        if t {
            ct_marker_begin($slot);
        }
        let r = black_box($body);
        if t {
            ct_marker_end($slot);
        }
        black_box(r);
    }};
}

static TRACED: std::sync::atomic::AtomicBool = std::sync::atomic::AtomicBool::new(false);

fn main() {
    let args: Vec<String> = std::env::args().collect();
    let op = args[1].as_str();
    let sec = std::fs::read(&args[2]).expect("secret file");
    assert!(sec.len() == 64);
    // warm-up: the same operation on a public input, untraced (initialises CPU feature
    // detection, lazily built statics, allocator arenas), then the traced run on the secret
    // (the large multiscalar operations warm up with the two-term form: what has to be initialised is the same,
    // and everything before the begin marker is public and identical for every secret anyway)
    // (the table operations warm up with the default fixed-base multiplication: building a second table only
    // doubles the time under the tracer)
    run_op(if op.contains("multiscalar_n") { "ed_multiscalar_2" } else if op.starts_with("ed_table_") { "ed_mul_base" } else { op }, &[0x42u8; 64]);
    TRACED.store(true, std::sync::atomic::Ordering::Relaxed);
    run_op(op, &sec);
}

fn run_op(op: &str, sec: &[u8]) {
    let mut slot = [0u64; 2];
    // public inputs
    let pub_scalar = Scalar::from(0x1234_5678_9abc_def1u64);
    let pub_point = ED25519_BASEPOINT_POINT * pub_scalar;
    let pub_point2 = pub_point + ED25519_BASEPOINT_POINT;
    // secret-derived inputs, built OUTSIDE the traced region
    let s1 = black_box(Scalar::from_bytes_mod_order(a32(&sec[..32])));
    let s2 = black_box(Scalar::from_bytes_mod_order(a32(&sec[32..])));
    let s1nz = black_box(s1 + Scalar::ONE); // non-zero for inversion unless s1 = -1 (alphabet avoids it)
    let sp1 = black_box(EdwardsPoint::mul_base(&s1));
    let sp2 = black_box(EdwardsPoint::mul_base(&s2) + curve25519_dalek::constants::EIGHT_TORSION[(sec[0] & 7) as usize]);
    let b32 = black_box(a32(&sec[..32]));
    let mut b64 = [0u8; 64];
    b64.copy_from_slice(sec);
    let b64 = black_box(b64);
    match op {
        // ---- scalars
        "sc_add" => traced!(&mut slot, black_box(&s1) + black_box(&s2)),
        "sc_sub" => traced!(&mut slot, black_box(&s1) - black_box(&s2)),
        "sc_mul" => traced!(&mut slot, black_box(&s1) * black_box(&s2)),
        "sc_neg" => traced!(&mut slot, -black_box(&s1)),
        "sc_invert" => traced!(&mut slot, black_box(&s1nz).invert()),
        "sc_from_bytes_mod_order" => traced!(&mut slot, Scalar::from_bytes_mod_order(black_box(b32))),
        "sc_from_bytes_mod_order_wide" => traced!(&mut slot, Scalar::from_bytes_mod_order_wide(black_box(&b64))),
        "sc_from_canonical_bytes" => traced!(&mut slot, Scalar::from_canonical_bytes(black_box(b32)).is_some().unwrap_u8()),
        "sc_batch_invert" => {
            let mut v = vec![s1nz, s1nz * s1nz + Scalar::ONE, Scalar::from(3u8)];
            traced!(&mut slot, Scalar::batch_invert(black_box(&mut v[..])));
            black_box(v);
        }
        // ---- Edwards
        "ed_add" => traced!(&mut slot, black_box(&sp1) + black_box(&sp2)),
        "ed_sub" => traced!(&mut slot, black_box(&sp1) - black_box(&sp2)),
        "ed_compress" => traced!(&mut slot, black_box(&sp2).compress()),
        "ed_compress_sp1" => traced!(&mut slot, black_box(&sp1).compress()),
        "ed_to_montgomery" => traced!(&mut slot, black_box(&sp1).to_montgomery()),
        "ed_neg" => traced!(&mut slot, -black_box(&sp1)),
        "ed_double" => traced!(&mut slot, black_box(&sp1) + black_box(&sp1)),
        "ed_ct_eq" => traced!(&mut slot, ct_eq_points(black_box(&sp1), black_box(&sp2))),
        // the same secret point in two *representations*, chosen by a secret bit outside the traced region: freshly
        // decoded (Z = 1, the shape of a point that arrived as bytes) or as left behind by arithmetic (random Z)
        "ed_compress_mixed" | "ed_to_montgomery_mixed" | "ed_ct_eq_mixed" | "ed_mul_secret_point_mixed" | "ed_add_mixed" | "ris_compress_mixed" => {
            let decoded = sp2.compress().decompress().expect("own encoding");
            let p = black_box(if sec[1] & 1 == 1 { decoded } else { sp2 });
            match op {
                "ed_compress_mixed" => traced!(&mut slot, black_box(&p).compress()),
                "ed_to_montgomery_mixed" => traced!(&mut slot, black_box(&p).to_montgomery()),
                "ed_ct_eq_mixed" => traced!(&mut slot, ct_eq_points(black_box(&p), black_box(&sp1))),
                "ed_mul_secret_point_mixed" => traced!(&mut slot, black_box(&p) * black_box(&s1)),
                "ed_add_mixed" => traced!(&mut slot, black_box(&p) + black_box(&sp1)),
                _ => {
                    let r = curve25519_dalek::ristretto::RistrettoPoint::mul_base(&s2);
                    let rd = r.compress().decompress().expect("own encoding");
                    let rp = black_box(if sec[1] & 1 == 1 { rd } else { r });
                    traced!(&mut slot, black_box(&rp).compress())
                }
            }
        }
        // Ristretto equality of one element held as two representatives: the comparison is true either way, but the
        // second representative is either a re-decoded copy (differs from the first by a 4-torsion point for about
        // half of all points) or the result of adding and subtracting a public point (same coset representative class
        // as arithmetic leaves it); which one is chosen by a secret bit outside the traced region
        "ris_eq_mixed" | "ris_eq_unequal" => {
            use curve25519_dalek::ristretto::RistrettoPoint;
            let a = black_box(RistrettoPoint::mul_base(&s2));
            let q = curve25519_dalek::constants::RISTRETTO_BASEPOINT_POINT * pub_scalar;
            let b = if op == "ris_eq_unequal" {
                black_box(RistrettoPoint::mul_base(&s1nz) + q)
            } else if sec[1] & 1 == 1 {
                black_box(a.compress().decompress().expect("own encoding"))
            } else {
                black_box((a + q) - q)
            };
            traced!(&mut slot, black_box(&a) == black_box(&b))
        }
        // whether the two secret operands are the *same* group element is itself secret: the second operand is either
        // another point or the first one in a different projective representation
        "ed_add_maybe_equal" | "ed_sub_maybe_equal" | "ed_eq_maybe_equal" | "ris_add_maybe_equal" => {
            let same = sp1.compress().decompress().expect("own encoding");
            let b = black_box(if sec[1] & 1 == 1 { same } else { sp2 });
            match op {
                "ed_add_maybe_equal" => traced!(&mut slot, black_box(&sp1) + black_box(&b)),
                "ed_sub_maybe_equal" => traced!(&mut slot, black_box(&sp1) - black_box(&b)),
                "ed_eq_maybe_equal" => traced!(&mut slot, ct_eq_points(black_box(&sp1), black_box(&b))),
                _ => {
                    use curve25519_dalek::ristretto::RistrettoPoint;
                    let r1 = RistrettoPoint::mul_base(&s1);
                    let r2 = black_box(if sec[1] & 1 == 1 { r1.compress().decompress().expect("own encoding") } else { RistrettoPoint::mul_base(&s2) });
                    traced!(&mut slot, black_box(&r1) + black_box(&r2))
                }
            }
        }
        "ed_mul_base" => traced!(&mut slot, EdwardsPoint::mul_base(black_box(&s1))),
        "ed_mul" => traced!(&mut slot, black_box(&pub_point) * black_box(&s1)),
        "ed_mul_secret_point" => traced!(&mut slot, black_box(&sp2) * black_box(&s1)),
        "ed_mul_clamped" => traced!(&mut slot, black_box(pub_point).mul_clamped(black_box(b32))),
        "ed_mul_base_clamped" => traced!(&mut slot, EdwardsPoint::mul_base_clamped(black_box(b32))),
        "ed_multiscalar_1" => traced!(&mut slot, EdwardsPoint::multiscalar_mul([s1].iter(), [pub_point].iter())),
        "ed_multiscalar_2" => traced!(&mut slot, EdwardsPoint::multiscalar_mul([s1, s2].iter(), [pub_point, pub_point2].iter())),
        "ris_multiscalar_2" => {
            let rp1 = curve25519_dalek::constants::RISTRETTO_BASEPOINT_POINT * pub_scalar;
            let rp2 = rp1 + curve25519_dalek::constants::RISTRETTO_BASEPOINT_POINT;
            traced!(&mut slot, RistrettoPoint::multiscalar_mul([s1, s2].iter(), [rp1, rp2].iter()))
        }
        "ed_multiscalar_3" => traced!(&mut slot, EdwardsPoint::multiscalar_mul([s1, s2, s1nz].iter(), [pub_point, pub_point2, sp1].iter())),
        // sizes at the thresholds where the *variable-time* front end switches algorithm (190, 500, 800 terms): the
        // constant-time front end must not switch at all
        "ed_multiscalar_n190" | "ed_multiscalar_n500" | "ed_multiscalar_n800" | "ris_multiscalar_n190" => {
            let n: usize = op.rsplit('n').next().unwrap().parse().unwrap();
            let scalars: Vec<Scalar> = (0..n).map(|i| s1 * Scalar::from(i as u64 + 1) + s2).collect();
            let mut points: Vec<EdwardsPoint> = Vec::with_capacity(n);
            let mut acc = pub_point;
            for _ in 0..n {
                points.push(acc);
                acc += ED25519_BASEPOINT_POINT;
            }
            if op.starts_with("ris") {
                let mut rpoints: Vec<curve25519_dalek::ristretto::RistrettoPoint> = Vec::with_capacity(n);
                let mut racc = curve25519_dalek::constants::RISTRETTO_BASEPOINT_POINT * Scalar::from(7u64);
                for _ in 0..n {
                    rpoints.push(racc);
                    racc += curve25519_dalek::constants::RISTRETTO_BASEPOINT_POINT;
                }
                let scalars = black_box(scalars);
                traced!(&mut slot, curve25519_dalek::ristretto::RistrettoPoint::multiscalar_mul(scalars.iter(), rpoints.iter()))
            } else {
                let scalars = black_box(scalars);
                traced!(&mut slot, EdwardsPoint::multiscalar_mul(scalars.iter(), points.iter()))
            }
        }
        // the same tables driven with the *clamped* secret bytes (an unreduced integer in [2^254, 2^255): the only
        // inputs for which the last digit / final carry of the recoding is not zero)
        #[cfg(feature = "tables")]
        "ed_table_radix16_clamped" | "ed_table_radix32_clamped" | "ed_table_radix64_clamped" | "ed_table_radix128_clamped" | "ed_table_radix256_clamped" => {
            use curve25519_dalek::edwards::*;
            use curve25519_dalek::traits::BasepointTable;
            match op {
                "ed_table_radix16_clamped" => {
                    let t = EdwardsBasepointTable::create(&pub_point);
                    traced!(&mut slot, t.mul_base_clamped(black_box(b32)))
                }
                "ed_table_radix32_clamped" => {
                    let t = EdwardsBasepointTableRadix32::create(&pub_point);
                    traced!(&mut slot, t.mul_base_clamped(black_box(b32)))
                }
                "ed_table_radix64_clamped" => {
                    let t = EdwardsBasepointTableRadix64::create(&pub_point);
                    traced!(&mut slot, t.mul_base_clamped(black_box(b32)))
                }
                "ed_table_radix128_clamped" => {
                    let t = EdwardsBasepointTableRadix128::create(&pub_point);
                    traced!(&mut slot, t.mul_base_clamped(black_box(b32)))
                }
                _ => {
                    let t = EdwardsBasepointTableRadix256::create(&pub_point);
                    traced!(&mut slot, t.mul_base_clamped(black_box(b32)))
                }
            }
        }
        #[cfg(feature = "tables")]
        "ed_table_radix16" | "ed_table_radix32" | "ed_table_radix64" | "ed_table_radix128" | "ed_table_radix256" => {
            use curve25519_dalek::edwards::*;
            use curve25519_dalek::traits::BasepointTable;
            match op {
                "ed_table_radix16" => {
                    let t = EdwardsBasepointTable::create(&pub_point);
                    traced!(&mut slot, t.mul_base(black_box(&s1)))
                }
                "ed_table_radix32" => {
                    let t = EdwardsBasepointTableRadix32::create(&pub_point);
                    traced!(&mut slot, t.mul_base(black_box(&s1)))
                }
                "ed_table_radix64" => {
                    let t = EdwardsBasepointTableRadix64::create(&pub_point);
                    traced!(&mut slot, t.mul_base(black_box(&s1)))
                }
                "ed_table_radix128" => {
                    let t = EdwardsBasepointTableRadix128::create(&pub_point);
                    traced!(&mut slot, t.mul_base(black_box(&s1)))
                }
                _ => {
                    let t = EdwardsBasepointTableRadix256::create(&pub_point);
                    traced!(&mut slot, t.mul_base(black_box(&s1)))
                }
            }
        }
        // ---- Montgomery / X25519
        "mont_mul_clamped" => traced!(&mut slot, MontgomeryPoint([9u8; 32]).mul_clamped(black_box(b32))),
        "mont_mul" => traced!(&mut slot, black_box(&MontgomeryPoint([9u8; 32])) * black_box(&s1)),
        "mont_mul_bits_be" => {
            let bits: Vec<bool> = (0..255).map(|i| (b32[i / 8] >> (i % 8)) & 1 == 1).collect();
            traced!(&mut slot, MontgomeryPoint([9u8; 32]).mul_bits_be(black_box(&bits).iter().cloned()))
        }
        "x25519" => traced!(&mut slot, x25519_dalek::x25519(black_box(b32), [9u8; 32])),
        "x25519_public_key" => {
            let sk = x25519_dalek::StaticSecret::from(b32);
            traced!(&mut slot, x25519_dalek::PublicKey::from(black_box(&sk)))
        }
        "x25519_dh" => {
            let sk = x25519_dalek::StaticSecret::from(b32);
            let pk = x25519_dalek::PublicKey::from([9u8; 32]);
            traced!(&mut slot, black_box(&sk).diffie_hellman(&pk).to_bytes())
        }
        // ---- Ristretto
        "ris_compress" => {
            let r = RistrettoPoint::mul_base(&s1);
            traced!(&mut slot, black_box(&r).compress())
        }
        "ris_from_uniform_bytes" => traced!(&mut slot, RistrettoPoint::from_uniform_bytes(black_box(&b64))),
        // ---- Ed25519
        "sig_from_bytes" => traced!(&mut slot, SigningKey::from_bytes(black_box(&b32)).verifying_key()),
        "sig_sign" => {
            let sk = SigningKey::from_bytes(&b32);
            traced!(&mut slot, black_box(&sk).sign(b"a public message of fixed length"))
        }
        "sig_sign_prehashed" => {
            use sha2::{Digest, Sha512};
            let sk = SigningKey::from_bytes(&b32);
            traced!(&mut slot, black_box(&sk).sign_prehashed(Sha512::new().chain_update(b"public"), Some(b"ctx")).unwrap())
        }
        // ---- positive controls: documented variable-time
        "vartime_double_base" => traced!(&mut slot, EdwardsPoint::vartime_double_scalar_mul_basepoint(black_box(&s1), &pub_point, black_box(&s2))),
        "vartime_multiscalar" => traced!(&mut slot, EdwardsPoint::vartime_multiscalar_mul([s1, s2].iter(), [pub_point, pub_point2].iter())),
        _ => {
            eprintln!("unknown op {}", op);
            std::process::exit(2);
        }
    }
}
