//! Cuts the marker-delimited region out of a `valgrind --tool=lackey --trace-mem=yes` log and
//! hashes it.
//!
//!   ct-cut <lackey-log> [--dump <file>]
//!
//! prints: `<sha512-prefix-hex> <instructions> <loads> <stores> <modifies>`; exit 3 if the markers
//! are not found exactly once each.

use sha2::{Digest, Sha512};
use std::io::{BufRead, BufReader, Write};

const BEGIN: [u8; 7] = [1, 2, 4, 8, 4, 2, 1];
const END: [u8; 7] = [8, 4, 2, 1, 2, 4, 8];

fn main() {
    let args: Vec<String> = std::env::args().collect();
    let f: Box<dyn std::io::Read> = if args[1] == "-" { Box::new(std::io::stdin()) } else { Box::new(std::fs::File::open(&args[1]).expect("log")) };
    let mut dump = if args.len() > 3 && args[2] == "--dump" { Some(std::io::BufWriter::new(std::fs::File::create(&args[3]).unwrap())) } else { None };
    let rd = BufReader::with_capacity(1 << 20, f);
    // sliding window over the sizes of the last 7 stores; lines since the window started
    let mut recent: Vec<u8> = Vec::new();
    let mut in_region = false;
    let mut begins = 0;
    let mut ends = 0;
    let mut h = Sha512::new();
    // Lines of the region are hashed as they arrive, except a short tail: the END marker is recognised only after its
    // seventh store, and its own lines (from its first store on) must not be hashed.  So only the lines from the
    // oldest of the last seven stores onwards are held back; everything older can never belong to the END marker.
    let mut pending: std::collections::VecDeque<String> = std::collections::VecDeque::new();
    let mut base: u64 = 0; // absolute index (within the region) of pending[0]
    let mut next_abs: u64 = 0;
    let mut store_abs: Vec<u64> = Vec::new(); // absolute indices of the last stores (at most 7)
    let mut account = |l: &str, h: &mut Sha512, dump: &mut Option<std::io::BufWriter<std::fs::File>>, c: &mut (u64, u64, u64, u64)| {
        let k = l.as_bytes();
        match if k[0] == b'I' { b'I' } else { k[1] } {
            b'I' => c.0 += 1,
            b'L' => c.1 += 1,
            b'S' => c.2 += 1,
            _ => c.3 += 1,
        }
        h.update(l.as_bytes());
        h.update(b"\n");
        if let Some(d) = dump.as_mut() {
            let _ = writeln!(d, "{}", l);
        }
    };
    let mut counts = (0u64, 0u64, 0u64, 0u64);
    for line in rd.lines() {
        let line = match line {
            Ok(l) => l,
            Err(_) => continue,
        };
        let b = line.as_bytes();
        if b.len() < 3 {
            continue;
        }
        let kind = if b[0] == b'I' { b'I' } else if b[0] == b' ' { b[1] } else { continue };
        if !matches!(kind, b'I' | b'L' | b'S' | b'M') {
            continue;
        }
        let size: u8 = line.rsplit(',').next().and_then(|s| s.trim().parse().ok()).unwrap_or(0);
        if in_region {
            pending.push_back(line.clone());
            next_abs += 1;
        }
        if kind == b'S' {
            recent.push(size);
            if recent.len() > 7 {
                recent.remove(0);
            }
            if in_region {
                store_abs.push(next_abs - 1);
                if store_abs.len() > 7 {
                    store_abs.remove(0);
                }
            }
            if !in_region && recent == BEGIN {
                in_region = true;
                begins += 1;
                recent.clear();
                pending.clear();
                store_abs.clear();
                base = 0;
                next_abs = 0;
            } else if in_region && recent == END {
                ends += 1;
                in_region = false;
                // drop everything from the first store of the END marker on
                let cut = store_abs[0];
                while base < cut {
                    let l = pending.pop_front().expect("held-back line");
                    account(&l, &mut h, &mut dump, &mut counts);
                    base += 1;
                }
                pending.clear();
                recent.clear();
            } else if in_region && store_abs.len() == 7 {
                // flush what can no longer be part of an END marker
                while base < store_abs[0] {
                    let l = pending.pop_front().expect("held-back line");
                    account(&l, &mut h, &mut dump, &mut counts);
                    base += 1;
                }
            }
        }
    }
    let (ni, nl, ns, nm) = counts;
    if begins != 1 || ends != 1 {
        eprintln!("markers: {} begin, {} end", begins, ends);
        std::process::exit(3);
    }
    let d = h.finalize();
    let hex: String = d[..16].iter().map(|x| format!("{:02x}", x)).collect();
    println!("{} {} {} {} {}", hex, ni, nl, ns, nm);
}
