//! Cuts the marker-delimited region out of a `valgrind --tool=lackey --trace-mem=yes` log and
//! hashes it.
//!
//!   ct-cut <lackey-log> [--dump <file>]
//!
//! prints: `<sha512-prefix-hex> <instructions> <loads> <stores> <modifies>`; exit 3 if the markers
//! are not found exactly once each.

use sha2::{Digest, Sha512};
use std::io::{BufRead, BufReader, Write};

const BEGIN: [u8; 7] = [1, 2, 4, 8, 4, 2, 1];
const END: [u8; 7] = [8, 4, 2, 1, 2, 4, 8];

fn main() {
    let args: Vec<String> = std::env::args().collect();
    let f: Box<dyn std::io::Read> = if args[1] == "-" { Box::new(std::io::stdin()) } else { Box::new(std::fs::File::open(&args[1]).expect("log")) };
    let mut dump = if args.len() > 3 && args[2] == "--dump" { Some(std::io::BufWriter::new(std::fs::File::create(&args[3]).unwrap())) } else { None };
    let rd = BufReader::with_capacity(1 << 20, f);
    // sliding window over the sizes of the last 7 stores; lines since the window started
    let mut recent: Vec<u8> = Vec::new();
    let mut in_region = false;
    let mut begins = 0;
    let mut ends = 0;
    let mut h = Sha512::new();
    let (mut ni, mut nl, mut ns, mut nm) = (0u64, 0u64, 0u64, 0u64);
    // lines of the region are buffered so that the END marker's own lines can be dropped
    let mut pending: Vec<String> = Vec::new();
    let mut pending_store_idx: Vec<usize> = Vec::new(); // indices in `pending` of the last stores
    for line in rd.lines() {
        let line = match line {
            Ok(l) => l,
            Err(_) => continue,
        };
        let b = line.as_bytes();
        if b.len() < 3 {
            continue;
        }
        let kind = if b[0] == b'I' { b'I' } else if b[0] == b' ' { b[1] } else { continue };
        if !matches!(kind, b'I' | b'L' | b'S' | b'M') {
            continue;
        }
        let size: u8 = line.rsplit(',').next().and_then(|s| s.trim().parse().ok()).unwrap_or(0);
        if in_region {
            pending.push(line.clone());
        }
        if kind == b'S' {
            recent.push(size);
            if recent.len() > 7 {
                recent.remove(0);
            }
            if in_region {
                pending_store_idx.push(pending.len() - 1);
                if pending_store_idx.len() > 7 {
                    pending_store_idx.remove(0);
                }
            }
            if !in_region && recent == BEGIN {
                in_region = true;
                begins += 1;
                recent.clear();
                pending.clear();
                pending_store_idx.clear();
            } else if in_region && recent == END {
                ends += 1;
                in_region = false;
                // drop everything from the first store of the END marker on
                let cut = pending_store_idx[0];
                pending.truncate(cut);
                for l in &pending {
                    let k = l.as_bytes();
                    match if k[0] == b'I' { b'I' } else { k[1] } {
                        b'I' => ni += 1,
                        b'L' => nl += 1,
                        b'S' => ns += 1,
                        _ => nm += 1,
                    }
                    h.update(l.as_bytes());
                    h.update(b"\n");
                    if let Some(d) = dump.as_mut() {
                        let _ = writeln!(d, "{}", l);
                    }
                }
                pending.clear();
                recent.clear();
            }
        } else if in_region && pending.len() > 50_000_000 {
            eprintln!("region too large");
            std::process::exit(3);
        }
    }
    if begins != 1 || ends != 1 {
        eprintln!("markers: {} begin, {} end", begins, ends);
        std::process::exit(3);
    }
    let d = h.finalize();
    let hex: String = d[..16].iter().map(|x| format!("{:02x}", x)).collect();
    println!("{} {} {} {} {}", hex, ni, nl, ns, nm);
}
