//! C14 over the feature lattice: for the feature subset this binary was built with, every secret-holding type that
//! exists is created from each secret of a small alphabet, used in each way the build offers, dropped, and the block
//! the allocator gets back is searched for the secret's bytes.  One JSON line per (type, lifecycle, secret).

#[path = "../../mc/src/heap.rs"]
mod heap;

#[global_allocator]
static A: heap::Observer = heap::Observer;

use rand_core::{CryptoRng, RngCore};

/// An RNG that hands out a fixed 32-byte string and keeps nothing on the heap.
struct Fixed([u8; 32], usize);
impl RngCore for Fixed {
    fn next_u32(&mut self) -> u32 {
        let mut b = [0u8; 4];
        self.fill_bytes(&mut b);
        u32::from_le_bytes(b)
    }
    fn next_u64(&mut self) -> u64 {
        let mut b = [0u8; 8];
        self.fill_bytes(&mut b);
        u64::from_le_bytes(b)
    }
    fn fill_bytes(&mut self, dest: &mut [u8]) {
        for d in dest {
            *d = self.0[self.1 % 32];
            self.1 += 1;
        }
    }
    fn try_fill_bytes(&mut self, dest: &mut [u8]) -> Result<(), rand_core::Error> {
        self.fill_bytes(dest);
        Ok(())
    }
}
impl CryptoRng for Fixed {}

fn secrets() -> Vec<[u8; 32]> {
    let mut v = Vec::new();
    for k in [1u8, 0x51, 0xa3] {
        let mut s = [0u8; 32];
        for i in 0..32 {
            s[i] = k.wrapping_add((i as u8).wrapping_mul(7));
        }
        v.push(s);
    }
    v
}

fn report(ty: &str, life: &str, secret: &[u8], what: &[u8], freed: &[heap::Freed]) {
    // `what`: the bytes that must not survive (the stored secret, or a value derived from it)
    let leak = heap::find_leak(freed, what, 8);
    let sizes: Vec<usize> = freed.iter().map(|f| f.size).collect();
    println!(
        "{{\"type\":\"{}\",\"lifecycle\":\"{}\",\"secret\":\"{}\",\"freed_blocks\":{:?},\"leak\":{}}}",
        ty,
        life,
        secret.iter().map(|b| format!("{:02x}", b)).collect::<String>(),
        sizes,
        match leak {
            Some((b, o)) => format!("{{\"block\":{},\"offset\":{}}}", b, o),
            None => "null".into(),
        }
    );
}

fn main() {
    let peer = x25519_dalek::PublicKey::from([9u8; 32]);
    // positive control: an unwiped copy must be seen by the observer
    {
        let s = secrets()[0];
        let (_, freed) = heap::observe(|| {
            let v: Vec<u8> = std::hint::black_box(s.to_vec());
            std::hint::black_box(v.as_ptr());
            drop(v);
        });
        report("CONTROL(plain array)", "create-drop", &s, &s, &freed);
    }
    for s in secrets() {
        // ---- x25519-dalek
        {
            let (_, freed) = heap::observe(|| {
                let b = Box::new(x25519_dalek::EphemeralSecret::random_from_rng(Fixed(s, 0)));
                drop(b);
            });
            report("EphemeralSecret", "create-drop", &s, &s, &freed);
            let (_, freed) = heap::observe(|| {
                let b = Box::new(x25519_dalek::EphemeralSecret::random_from_rng(Fixed(s, 0)));
                let _pk = x25519_dalek::PublicKey::from(&*b);
                drop(b);
            });
            report("EphemeralSecret", "create-public_key-drop", &s, &s, &freed);
            let shared_bytes = x25519_dalek::x25519(s, [9u8; 32]);
            let (_, freed) = heap::observe(|| {
                let e = x25519_dalek::EphemeralSecret::random_from_rng(Fixed(s, 0));
                let b = Box::new(e.diffie_hellman(&peer));
                let _c = b.was_contributory();
                drop(b);
            });
            report("SharedSecret", "dh-use-drop", &s, &shared_bytes, &freed);
        }
        #[cfg(feature = "reusable_secrets")]
        {
            let (_, freed) = heap::observe(|| {
                let b = Box::new(x25519_dalek::ReusableSecret::random_from_rng(Fixed(s, 0)));
                drop(b);
            });
            report("ReusableSecret", "create-drop", &s, &s, &freed);
            let (_, freed) = heap::observe(|| {
                let b = Box::new(x25519_dalek::ReusableSecret::random_from_rng(Fixed(s, 0)));
                let _ = b.diffie_hellman(&peer);
                let _ = b.diffie_hellman(&peer);
                let c = Box::new((*b).clone());
                drop(b);
                drop(c);
            });
            report("ReusableSecret", "create-dh-dh-clone-drop-drop", &s, &s, &freed);
        }
        #[cfg(feature = "static_secrets")]
        {
            let (_, freed) = heap::observe(|| {
                let b = Box::new(x25519_dalek::StaticSecret::from(s));
                drop(b);
            });
            report("StaticSecret", "create-drop", &s, &s, &freed);
            let (_, freed) = heap::observe(|| {
                let b = Box::new(x25519_dalek::StaticSecret::random_from_rng(Fixed(s, 0)));
                let _ = b.diffie_hellman(&peer);
                let _ = b.to_bytes();
                let c = Box::new((*b).clone());
                drop(b);
                drop(c);
            });
            report("StaticSecret", "random-dh-to_bytes-clone-drop-drop", &s, &s, &freed);
        }
        // ---- ed25519-dalek
        {
            let (_, freed) = heap::observe(|| {
                let b = Box::new(ed25519_dalek::SigningKey::from_bytes(&s));
                drop(b);
            });
            report("SigningKey", "create-drop", &s, &s, &freed);
            let (_, freed) = heap::observe(|| {
                let b = Box::new(ed25519_dalek::SigningKey::from_bytes(&s));
                use ed25519_dalek::Signer;
                let _sig = b.sign(b"message");
                let c = Box::new((*b).clone());
                drop(b);
                drop(c);
            });
            report("SigningKey", "create-sign-clone-drop-drop", &s, &s, &freed);
        }
        #[cfg(feature = "hazmat")]
        {
            let probe = ed25519_dalek::hazmat::ExpandedSecretKey::from(&s);
            let prefix = probe.hash_prefix;
            let scalar = probe.scalar.to_bytes();
            let (_, freed) = heap::observe(|| {
                let b = Box::new(ed25519_dalek::hazmat::ExpandedSecretKey::from(&s));
                drop(b);
            });
            report("ExpandedSecretKey.hash_prefix", "create-drop", &s, &prefix, &freed);
            report("ExpandedSecretKey.scalar", "create-drop", &s, &scalar, &freed);
        }
    }
}
