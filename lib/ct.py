"""C10: trace observer (valgrind lackey) over a secret alphabet."""
import os, subprocess, json, time, hashlib, concurrent.futures as cf

ROOT = os.path.dirname(os.path.dirname(os.path.abspath(__file__)))
TARGET = os.path.join(ROOT, "target")
CT = os.path.join(ROOT, "ct")

CT_CONFIGS = {
    "simd":     {"toolchain": "stable", "rustflags": ""},
    "serial64": {"toolchain": "stable", "rustflags": '--cfg curve25519_dalek_backend="serial" --cfg curve25519_dalek_bits="64"'},
    "serial32": {"toolchain": "stable", "rustflags": '--cfg curve25519_dalek_backend="serial" --cfg curve25519_dalek_bits="32"'},
    "fiat64":   {"toolchain": "stable", "rustflags": '--cfg curve25519_dalek_backend="fiat" --cfg curve25519_dalek_bits="64"'},
    "fiat32":   {"toolchain": "stable", "rustflags": '--cfg curve25519_dalek_backend="fiat" --cfg curve25519_dalek_bits="32"'},
    # valgrind cannot execute AVX-512: this configuration is traced with the ptrace stepper (instruction pointers only)
    "avx512":   {"toolchain": "nightly", "rustflags": '--cfg curve25519_dalek_backend="unstable_avx512"', "stepper": True},
}

# operations that reach the vector point arithmetic (variable-base, Straus); the rest of the
# constant-time list runs the serial field code, which the other configurations cover
IFMA_OPS = ["ed_mul", "ed_mul_secret_point", "ed_mul_clamped", "ed_multiscalar_1", "ed_multiscalar_2", "ed_multiscalar_3"]

TRACE_TIMEOUT_S = 3600  # a single traced operation takes seconds to a few minutes; this only bounds a hang

L = 2**252 + 27742317777372353535851937790883648493

CT_OPS = [
    "sc_add", "sc_sub", "sc_mul", "sc_neg", "sc_invert", "sc_from_bytes_mod_order", "sc_from_bytes_mod_order_wide",
    "sc_from_canonical_bytes", "sc_batch_invert",
    "ed_add", "ed_sub", "ed_compress", "ed_compress_sp1", "ed_to_montgomery", "ed_neg", "ed_double", "ed_ct_eq", "ed_mul_base", "ed_mul", "ed_mul_secret_point", "ed_mul_clamped", "ed_mul_base_clamped",
    "ed_compress_mixed", "ed_to_montgomery_mixed", "ed_ct_eq_mixed", "ed_mul_secret_point_mixed", "ed_add_mixed", "ris_compress_mixed", "ris_eq_mixed", "ris_eq_unequal", "ed_add_maybe_equal", "ed_sub_maybe_equal", "ed_eq_maybe_equal", "ris_add_maybe_equal",
    "ed_multiscalar_1", "ed_multiscalar_2", "ed_multiscalar_3", "ris_multiscalar_2", "ed_multiscalar_n190", "ed_multiscalar_n500", "ed_multiscalar_n800", "ris_multiscalar_n190",
    "ed_table_radix16", "ed_table_radix32", "ed_table_radix64", "ed_table_radix128", "ed_table_radix256",
    "ed_table_radix16_clamped", "ed_table_radix32_clamped", "ed_table_radix64_clamped", "ed_table_radix128_clamped", "ed_table_radix256_clamped",
    "mont_mul_clamped", "mont_mul", "mont_mul_bits_be", "x25519", "x25519_public_key", "x25519_dh",
    "ris_compress", "ris_from_uniform_bytes", "sig_from_bytes", "sig_sign", "sig_sign_prehashed",
]
QUICK_OPS = ["sc_mul", "sc_invert", "ed_mul", "ed_mul_base", "ed_multiscalar_2", "mont_mul", "ed_to_montgomery", "sc_from_bytes_mod_order_wide",
             "ed_add", "mont_mul_clamped", "ris_from_uniform_bytes", "sig_sign", "x25519", "ed_ct_eq"]
SCALAR_OPS = [o for o in CT_OPS if o.startswith("sc_")]
BIG_OPS = ["ed_multiscalar_n190", "ed_multiscalar_n500", "ed_multiscalar_n800", "ris_multiscalar_n190"]  # traced with two secrets
TABLE_OPS = [o for o in CT_OPS if o.startswith("ed_table_")]
CONTROLS = ["vartime_double_base", "vartime_multiscalar"]


def secrets(tier):
    s = []
    s.append(("zero", bytes(64)))
    s.append(("ones", bytes([0xff]) * 64))
    s.append(("count", bytes(range(64))))
    s.append(("nibble8", bytes([0x88]) * 64))
    if tier == "thorough":
        s.append(("l-1", (L - 1).to_bytes(32, "little") * 2))
        s.append(("one", bytes([1] + [0] * 31) * 2))
        for b in (0x77, 0x0f, 0xf0, 0x80, 0x7f, 0x55, 0xaa, 0x08, 0xf8):
            s.append(("byte%02x" % b, bytes([b]) * 64))
        for bit in (0, 1, 2, 3, 4, 7, 8, 63, 64, 127, 128, 251, 252, 253, 254, 255):
            v = (1 << bit).to_bytes(32, "little")
            s.append(("bit%d" % bit, v + v))
        s.append(("l", L.to_bytes(32, "little") * 2))
        s.append(("l+1", (L + 1).to_bytes(32, "little") * 2))
        s.append(("2^252-1", (2**252 - 1).to_bytes(32, "little") * 2))
        s.append(("mixed", bytes([(i * 37 + 11) & 0xff for i in range(64)])))
        s.append(("top", bytes([0] * 31 + [0x7f]) * 2))
    return s


def build(config, tables, log):
    c = CT_CONFIGS[config]
    env = dict(os.environ)
    env["CARGO_NET_OFFLINE"] = "true"
    env["RUSTFLAGS"] = c["rustflags"]
    tdir = os.path.join(TARGET, "ct-" + config)
    env["CARGO_TARGET_DIR"] = tdir
    cmd = ["cargo"] + (["+" + c["toolchain"]] if c["toolchain"] != "stable" else []) + ["build", "--offline", "--release", "--no-default-features"]
    if tables:
        cmd += ["--features", "tables"]
    p = subprocess.run(cmd, cwd=CT, env=env, stdout=subprocess.PIPE, stderr=subprocess.STDOUT, text=True)
    if p.returncode != 0:
        log(p.stdout[-4000:])
        raise SystemExit(2)
    bindir = os.path.join(TARGET, "bin")
    os.makedirs(bindir, exist_ok=True)
    tag = "ct-%s-%s" % (config, "tables" if tables else "notables")
    out = {}
    for b in ("ct-subject", "ct-cut", "ct-step"):
        dst = os.path.join(bindir, tag + "-" + b)
        tmp = dst + ".tmp%d" % os.getpid()
        import shutil
        shutil.copy2(os.path.join(tdir, "release", b), tmp)
        os.replace(tmp, dst)
        out[b] = dst
    if c.get("stepper"):
        nm = subprocess.run(["nm", out["ct-subject"]], stdout=subprocess.PIPE, text=True).stdout
        for line in nm.splitlines():
            f = line.split()
            if len(f) == 3 and f[2] in ("ct_marker_begin", "ct_marker_end"):
                out[f[2]] = f[0].lstrip("0") or "0"
        assert "ct_marker_begin" in out and "ct_marker_end" in out, "marker symbols not found"
        out["stepper"] = True
    return out


def trace(bins, op, secret_path, dump=None):
    """Run one traced execution; returns (hash, n_instr, n_load, n_store) or raises."""
    if bins.get("stepper"):
        p = subprocess.run(["env", "-i", bins["ct-step"], bins["ct_marker_begin"], bins["ct_marker_end"], bins["ct-subject"], op, secret_path],
                           stdout=subprocess.PIPE, stderr=subprocess.PIPE, text=True, timeout=TRACE_TIMEOUT_S)
        if p.returncode != 0:
            raise RuntimeError("ptrace stepper failed for %s: rc=%s %s" % (op, p.returncode, p.stderr[-300:]))
        f = p.stdout.split()
        return f[0], int(f[1]), 0, 0
    cmd = ["env", "-i", "setarch", "x86_64", "-R", "valgrind", "--tool=lackey", "--trace-mem=yes", "--log-fd=1", bins["ct-subject"], op, secret_path]
    cut = [bins["ct-cut"], "-"]
    if dump:
        cut += ["--dump", dump]
    p1 = subprocess.Popen(cmd, stdout=subprocess.PIPE, stderr=subprocess.DEVNULL)
    p2 = subprocess.Popen(cut, stdin=p1.stdout, stdout=subprocess.PIPE, stderr=subprocess.PIPE, text=True)
    p1.stdout.close()
    try:
        out, err = p2.communicate(timeout=TRACE_TIMEOUT_S)
    except subprocess.TimeoutExpired:
        p1.kill()
        p2.kill()
        raise RuntimeError("trace of %s did not finish within %d s (subject does not terminate under the tracer?)" % (op, TRACE_TIMEOUT_S))
    p1.wait()
    if p2.returncode != 0 or p1.returncode != 0:
        raise RuntimeError("trace failed for %s: valgrind rc=%s cut rc=%s %s" % (op, p1.returncode, p2.returncode, err[-300:]))
    f = out.split()
    return f[0], int(f[1]), int(f[2]), int(f[3])


def first_divergence(bins, op, pa, pb, scratch):
    if bins.get("stepper"):
        return {"note": "instruction-pointer trace (ptrace stepper): hashes and lengths differ; no per-line dump"}
    da, db = os.path.join(scratch, "dump_a.txt"), os.path.join(scratch, "dump_b.txt")
    trace(bins, op, pa, da)
    trace(bins, op, pb, db)
    with open(da) as fa, open(db) as fb:
        for i, (x, y) in enumerate(zip(fa, fb)):
            if x != y:
                return {"line": i, "a": x.strip(), "b": y.strip()}
    return {"line": None, "note": "traces have different lengths"}


def run(pid, tier, log, scratch):
    t0 = time.time()
    if tier == "quick":
        # every operation of the list on the default build (except the three slowest table radices), a thinner
        # secret alphabet than the thorough tier; the core operations again on the serial and IFMA builds
        slow_tables = [o for o in TABLE_OPS if any(r in o for r in ("radix64", "radix128", "radix256"))]
        plan = [("simd", True, [o for o in CT_OPS if o not in slow_tables and o not in BIG_OPS[1:]]), ("serial64", True, QUICK_OPS[:7]), ("avx512", True, ["ed_mul", "ed_mul_secret_point", "ed_multiscalar_2"]),
                # the 32-bit and fiat backends have their own scalar and field code: every scalar kernel plus one
                # operation per point-arithmetic family
                ("serial32", True, SCALAR_OPS + ["ed_mul", "mont_mul", "ed_compress", "sig_sign"]),
                ("fiat64", True, ["sc_mul", "sc_invert", "ed_mul", "mont_mul"]),
                ("fiat32", True, ["sc_mul", "sc_sub", "ed_mul", "mont_mul"])]
    else:
        plan = [("simd", True, CT_OPS), ("simd", False, [o for o in CT_OPS if o not in TABLE_OPS and o not in BIG_OPS]), ("serial64", True, [o for o in CT_OPS if o not in BIG_OPS[1:]]),
                ("serial32", True, [o for o in CT_OPS if (o not in TABLE_OPS or "radix16" in o) and o not in BIG_OPS]), ("fiat64", True, QUICK_OPS + [o for o in SCALAR_OPS if o not in QUICK_OPS]), ("fiat32", True, QUICK_OPS + [o for o in SCALAR_OPS if o not in QUICK_OPS]),
                ("avx512", True, IFMA_OPS), ("avx512", False, IFMA_OPS[:3])]
    secs = secrets(tier)
    sdir = os.path.join(scratch, "secrets")
    os.makedirs(sdir, exist_ok=True)
    spaths = []
    for i, (name, b) in enumerate(secs):
        assert len(b) == 64
        p = os.path.join(sdir, "s%03d.bin" % i)  # equal-length paths: argv layout must not depend on the secret
        open(p, "wb").write(b)
        spaths.append(p)
    built = {}
    for cfg, tables, _ in plan:
        if (cfg, tables) not in built:
            built[(cfg, tables)] = build(cfg, tables, log)
    # table construction under valgrind is slow: the per-radix table operations use a thinner alphabet
    def sel(op):
        if op in BIG_OPS:
            return [0, 2]  # the all-zero secret and the counting pattern
        if op in TABLE_OPS:
            # table construction under the tracer dominates: three secrets in the quick tier, eight in the thorough one
            return range(min(len(secs), 3 if tier == "quick" else 8))
        return range(len(secs))
    jobs = []
    for cfg, tables, ops in plan:
        for op in ops + CONTROLS:
            for si in sel(op):
                jobs.append((cfg, tables, op, si))
    results = {}
    errors = []

    def one(j):
        cfg, tables, op, si = j
        try:
            return j, trace(built[(cfg, tables)], op, spaths[si])
        except Exception as e:  # machinery
            return j, e

    with cf.ThreadPoolExecutor(max_workers=16) as ex:
        for j, r in ex.map(one, jobs):
            if isinstance(r, Exception):
                errors.append(str(r))
            else:
                results[j] = r
    if errors:
        log("\n".join(errors[:5]))
        raise SystemExit(2)
    violations = []
    groups = []
    controls_ok = {}
    n_instr = 0
    for cfg, tables, ops in plan:
        for op in ops + CONTROLS:
            hs = [results[(cfg, tables, op, si)] for si in sel(op)]
            n_instr += sum(h[1] for h in hs)
            distinct = sorted(set(h[0] for h in hs))
            g = {"config": cfg, "tables": tables, "op": op, "secrets": len(hs), "distinct_traces": len(distinct), "instructions": hs[0][1], "loads": hs[0][2], "stores": hs[0][3]}
            groups.append(g)
            if op in CONTROLS:
                controls_ok[(cfg, tables, op)] = len(distinct) >= 2
                continue
            if len(distinct) != 1:
                idx = list(sel(op))
                pos = next(k for k in range(len(hs)) if hs[k][0] != hs[0][0])
                first, other = idx[0], idx[pos]
                hs = {idx[k]: h for k, h in enumerate(hs)}
                div = first_divergence(built[(cfg, tables)], op, spaths[first], spaths[other], scratch)
                violations.append({
                    "property": pid,
                    "key": "trace.%s" % op,
                    "what": "the (instruction, address) trace of %s on %s differs between secrets '%s' and '%s' (%d vs %d instructions); first divergence: %s" % (
                        op, cfg, secs[first][0], secs[other][0], hs[first][1], hs[other][1], json.dumps(div)),
                    "case": {"kind": "trace", "config": cfg, "tables": tables, "op": op, "secret_a": secs[first][1].hex(), "secret_b": secs[other][1].hex(), "divergence": div},
                    "config": {"config": "ct-" + cfg, "variant": "tables" if tables else "notables", "dispatch": "auto"},
                })
    for k, ok in controls_ok.items():
        if not ok:
            log("MACHINERY-ERROR: positive control %s produced identical traces for all secrets: the observer is blind" % (k,))
            raise SystemExit(2)
    n_ct = sum(1 for g in groups if g["op"] not in CONTROLS)
    cov = {
        "evaluations": len(jobs),
        "distinct_nontrivial": n_ct,
        "rule": "for each constant-time operation and each secret of the alphabet, the release binary (built without the verification cfg) runs under valgrind lackey; the marker-delimited sequence of (instruction address) and (load/store address, size) is hashed; all secrets of one (configuration, operation) must give one hash. "
                "distinct_nontrivial = (configuration, operation) groups compared. The documented variable-time entry points are run as positive controls and must give >= 2 distinct traces. "
                "The avx512 configuration (IFMA vector code, which valgrind cannot execute) is traced with a ptrace single-stepper instead: the sequence of instruction pointers between the markers, without data addresses.",
        "samples": groups[:3] + [g for g in groups if g["op"] in CONTROLS][:2],
        "groups": groups,
        "secret_alphabet": [n for n, _ in secs],
        "traced_instructions_total": n_instr,
        "positive_controls": {"%s/%s/%s" % k: v for k, v in controls_ok.items()},
        "exhaustive": False,
    }
    return cov, violations, time.time() - t0
