#!/usr/bin/env python3
"""Seeded-change bookkeeping.

  seed.py verify <id>            confirm a sub-agent's deliverable in its scratch worktree
                                 (/tmp/seed/<id>, /tmp/seed/<id>-out) and keep it as /verif/seeded/<id>/
  seed.py run <id> [PROP...]     apply /verif/seeded/<id>/patch.diff to /repo, run the quick checks
                                 (default: the property it targets), undo, record the outcome
"""
import json, os, subprocess, sys, shutil, time, glob

ROOT = os.path.dirname(os.path.dirname(os.path.abspath(__file__)))
SEEDED = os.path.join(ROOT, "seeded")
VERIF = ROOT
REPO = "/repo"
NEXTEST = "cargo nextest run --workspace --no-fail-fast --tool-config-file pb:/w/lib/nextest.toml --profile pb --test-threads 8 --offline"


def sh(cmd, cwd, env=None, timeout=3600):
    e = dict(os.environ)
    if env:
        e.update(env)
    p = subprocess.run(cmd, cwd=cwd, shell=True, env=e, stdout=subprocess.PIPE, stderr=subprocess.STDOUT, text=True, timeout=timeout)
    return p.returncode, p.stdout


def verify(sid):
    wt = "/tmp/seed/%s" % sid
    out = "/tmp/seed/%s-out" % sid
    env = {"CARGO_TARGET_DIR": wt + "/target"}
    meta = json.load(open(out + "/meta.json"))
    demo_cmd = open(out + "/demo_cmd.txt").read().strip()
    rc, o = sh("git status --porcelain --untracked-files=no", wt)
    assert o.strip() == "", "worktree not clean: " + o
    rc, o = sh("git apply --check %s/patch.diff" % out, wt)
    assert rc == 0, o
    sh("git apply %s/patch.diff" % out, wt)
    res = {}
    # the demo test lives untracked in the worktree: hide it while the repository's own suite runs
    rc, o = sh("git ls-files --others --exclude-standard", wt)
    untracked = [l for l in o.splitlines() if l.strip() and not l.startswith("target")]
    hidden = []
    for u in untracked:
        dst = os.path.join(out, "hidden_" + u.replace("/", "__"))
        shutil.move(os.path.join(wt, u), dst)
        hidden.append((os.path.join(wt, u), dst))
    try:
        rc, o = sh(NEXTEST, wt, env)
        tail = [l for l in o.splitlines() if "Summary" in l]
        res["suite_with_change"] = tail[-1].strip() if tail else o[-300:]
        suite_ok = rc == 0 and "138 passed" in (tail[-1] if tail else "")
        for a, b in hidden:
            shutil.move(b, a)
        hidden = []
        rc, o = sh(demo_cmd, wt, env)
        res["demo_with_change_rc"] = rc
    finally:
        for a, b in hidden:
            shutil.move(b, a)
        sh("git checkout -- .", wt)
    rc2, o2 = sh(demo_cmd, wt, env)
    res["demo_without_change_rc"] = rc2
    ok = suite_ok and res["demo_with_change_rc"] != 0 and rc2 == 0
    res["confirmed"] = ok
    print(json.dumps(res, indent=1))
    if not ok:
        print("NOT CONFIRMED")
        return 1
    d = os.path.join(SEEDED, sid)
    os.makedirs(d, exist_ok=True)
    shutil.copy(out + "/patch.diff", d)
    shutil.copy(out + "/demo_cmd.txt", d)
    for f in glob.glob(out + "/*.rs"):
        shutil.copy(f, d)
    meta["confirmed_by_me"] = res
    meta["what_i_ran"] = [NEXTEST + " (with the change: 138 passed)", demo_cmd + " (fails with the change, passes without)"]
    json.dump(meta, open(os.path.join(d, "meta.json"), "w"), indent=1)
    print("kept as", d)
    return 0


def run(sid, props, tier="quick"):
    d = os.path.join(SEEDED, sid)
    meta = json.load(open(os.path.join(d, "meta.json")))
    if not props:
        props = [meta["property"]]
    rc, o = sh("git status --porcelain --untracked-files=no", "/repo")
    assert o.strip() == "", "/repo not clean"
    rc, o = sh("git apply %s/patch.diff" % d, "/repo")
    assert rc == 0, o
    results = {}
    try:
        for p in props:
            t = time.time()
            rc, o = sh("./check %s --tier %s" % (p, tier), ROOT)
            vio = [l for l in o.splitlines() if l.startswith("VIOLATION")]
            first = [l for l in o.splitlines() if l.startswith("  ") and ":" in l][:2]
            results[p] = {"exit": rc, "violations": len(vio), "first": first, "wall_s": round(time.time() - t, 1)}
            print(p, results[p], flush=True)
    finally:
        sh("git checkout -- .", "/repo")
    meta.setdefault("check_results", {}).update({tier + ":" + k: v for k, v in results.items()})
    json.dump(meta, open(os.path.join(d, "meta.json"), "w"), indent=1)
    return 0



PROMPT_HEAD = """You are helping to evaluate a verification tool by producing ONE realistic, subtle, property-breaking change ("seeded bug") to the Rust repository dalek-cryptography/curve25519-dalek (workspace with crates curve25519-dalek, ed25519-dalek, x25519-dalek).

Your private scratch git worktree of the repository is at: {wt}
Write your deliverables to: {out}
Work ONLY inside those two directories. Never touch /repo or /verif (do not read /verif either). Use CARGO_TARGET_DIR={wt}/target for all cargo commands, and always pass --offline (there is no network).

The semantic property you must break:

{prop}
{extra}
Task:
1. Read the relevant code in the worktree (the files listed above and whatever else you need). Ignore `src/verif.rs` and anything under `#[cfg(curve25519_dalek_verif)]` - that is test scaffolding, do not modify or rely on it.
2. Make a SMALL source change (a few lines, in non-test code of the crates) that makes the property FALSE, but that is subtle: it must need something specific to manifest - an unusual / corner-case input, a particular multi-step sequence of operations, a specific configuration (backend cfg such as `--cfg curve25519_dalek_backend="serial"` or `curve25519_dalek_bits="32"`, a cargo feature, table on/off), or two cooperating sites that each look fine alone. Do NOT make a change that ordinary use would expose at once (e.g. breaking every multiplication). Prefer changes resembling real bugs: off-by-one in a loop bound or window, wrong constant limb, missing carry/reduction, swapped threshold, dropped validity check on a rare path, wrong mask, mishandled edge value (0, p, l, 2^255-1, identity, torsion points, empty input, lengths at a boundary).
3. The change MUST still compile and MUST still pass the repository's existing test suite. Verify this by running, in the worktree:
   cd {wt} && CARGO_TARGET_DIR={wt}/target cargo nextest run --workspace --no-fail-fast --tool-config-file pb:/w/lib/nextest.toml --profile pb --test-threads 8 --offline
   (138 tests must pass; if your change makes any fail, pick a different change.) Do not edit or delete existing tests.
4. Write a demonstration: a small Rust test file (an integration test placed under the relevant crate's `tests/` directory, e.g. {wt}/curve25519-dalek/tests/seeded_demo.rs, using only the public API; if a non-default cfg/feature is needed say exactly which RUSTFLAGS/--features) that FAILS with your change and PASSES without it. Verify both directions yourself (use `git diff > patch; git checkout -- <files>; ...; git apply patch`). The demo file itself must not be part of the patch.
5. Deliverables in {out}:
   - patch.diff : `git diff` of ONLY the source change (not the demo), applicable with `git apply` at the repository root.
   - the demo test file (copy), plus demo_cmd.txt with the exact command line to run it from the repository root (including RUSTFLAGS / features / toolchain if needed).
   - meta.json : {{"property": "{pid}", "summary": "...what you changed...", "needs_to_manifest": "...the specific input/sequence/configuration...", "files_changed": [...], "tests_still_pass": true, "demo_fails_with_change": true, "demo_passes_without_change": true}}
6. Leave the worktree with the change REVERTED (clean `git status` except untracked demo), and finish with a short report: what you changed, what it needs to manifest, and the commands you ran.

Be efficient: one good seeded bug is enough. Do not produce more than one.
"""

KINDS = ("This time prefer a bug of one of these kinds: (a) TWO cooperating sites that each look fine alone (e.g. a helper whose contract is slightly widened plus a caller that now relies on the old contract); "
         "(b) a bug that needs a MULTI-STEP sequence of public operations to manifest (state produced by one operation and mis-handled by a later one: unreduced internal representations, a particular projective representation, a table built from a special point, an object cloned/converted and then used); "
         "(c) a bug confined to one configuration that the default test run never executes (a cargo feature off/on, 32-bit limbs, fiat backend, serial fallback inside a simd build, AVX-512 IFMA with `cargo +nightly` and RUSTFLAGS='--cfg curve25519_dalek_backend=\"unstable_avx512\"'). Be creative and look at code paths the earlier changes did not touch.\n")


def prompt(sid):
    """Create the scratch worktree for seed `sid` and print the sub-agent prompt (property text only + what earlier
    seeds of the same property did, so that rounds do not repeat)."""
    pid = sid[:3]
    props = {}
    for line in open(os.path.join(VERIF, "properties.jsonl")):
        d = json.loads(line)
        props[d["id"]] = d
    d = props[pid]
    files = d["anchors"]["files"]
    text = "Property %s: %s\n\nStatement: %s\n\nQuantified over: %s\n\nAnchored in files: %s\n" % (
        pid, d["title"], d["statement"], d["quantifier"]["text"], ", ".join(sorted(set(f for f in files if f))))
    earlier = []
    sd = os.path.join(VERIF, "seeded")
    for e in sorted(os.listdir(sd)):
        mp = os.path.join(sd, e, "meta.json")
        if e.startswith(pid) and os.path.exists(mp):
            earlier.append("  - " + json.load(open(mp)).get("summary", "")[:400])
    others = []
    for e in sorted(os.listdir(sd)):
        mp = os.path.join(sd, e, "meta.json")
        if not e.startswith(pid) and os.path.exists(mp):
            m = json.load(open(mp))
            others.append("  - %s: %s" % (", ".join(os.path.basename(f) for f in m.get("files_changed", [])[:2]), m.get("summary", "")[:170].replace("\n", " ")))
    extra = ""
    if earlier:
        extra = ("\nAdditional constraints: earlier experiments already made the following changes for this property; do NOT repeat them or close variants (same function, same line):\n"
                 + "\n".join(earlier) + "\n" + KINDS + "\n")
    if others:
        extra += ("Changes made in experiments for OTHER properties (for your information: do not produce the same change again, even if it would also break your property):\n"
                  + "\n".join(others) + "\n\n")
    wt, out = "/tmp/seed/" + sid, "/tmp/seed/" + sid + "-out"
    os.makedirs(out, exist_ok=True)
    if not os.path.exists(wt):
        subprocess.run(["git", "-C", REPO, "worktree", "add", "--detach", wt], check=True, stdout=subprocess.DEVNULL, stderr=subprocess.DEVNULL)
    txt = PROMPT_HEAD.format(wt=wt, out=out, prop=text, extra=extra, pid=pid)
    open("/tmp/seed/prompt_%s.txt" % sid, "w").write(txt)
    print(txt)

if __name__ == "__main__" and sys.argv[1] == "prompt":
    prompt(sys.argv[2])
    sys.exit(0)

if __name__ == "__main__" and sys.argv[1] != "summary":
    if sys.argv[1] == "verify":
        sys.exit(verify(sys.argv[2]))
    if sys.argv[1] == "run":
        tier = "quick"
        args = sys.argv[3:]
        if "--thorough" in args:
            tier = "thorough"
            args.remove("--thorough")
        sys.exit(run(sys.argv[2], args, tier))


def summary():
    rows = []
    for d in sorted(glob.glob(os.path.join(SEEDED, "*", "meta.json"))):
        m = json.load(open(d))
        sid = os.path.basename(os.path.dirname(d))
        res = m.get("check_results", {})
        caught = sorted(k for k, v in res.items() if v.get("exit") == 1)
        missed = sorted(k for k, v in res.items() if v.get("exit") == 0)
        rows.append((sid, m.get("property"), m.get("summary", "").replace("\n", " ")[:220], m.get("needs_to_manifest", "").replace("\n", " ")[:260], ", ".join(caught), ", ".join(missed)))
    with open(os.path.join(SEEDED, "SUMMARY.md"), "w") as f:
        f.write("# Seeded property-breaking changes and which checks report them\n\n")
        f.write("Produced by fresh sub-agents that saw only the property text and a scratch worktree; each confirmed by `lib/seed.py verify` "
                "(138 tests green with the change, demo fails with it / passes without) and run with `lib/seed.py run` (patch applied to /repo, checks run, patch undone).\n"
                "`check_results` keys are `<tier>:<property>`; a check listed under *not reporting* was run and stayed silent — for checks of other properties that is expected "
                "when the change does not violate them, for the targeted property see DESIGN.md section 8 for what was strengthened afterwards (the table shows the latest runs).\n\n")
        f.write("| id | property | change | needs | reported by | run but not reporting |\n|---|---|---|---|---|---|\n")
        for r in rows:
            f.write("| %s | %s | %s | %s | %s | %s |\n" % r)
    print("wrote", os.path.join(SEEDED, "SUMMARY.md"), len(rows), "seeds")


if __name__ == "__main__" and len(sys.argv) > 1 and sys.argv[1] == "summary":
    summary()
