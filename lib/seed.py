#!/usr/bin/env python3
"""Seeded-change bookkeeping.

  seed.py verify <id>            confirm a sub-agent's deliverable in its scratch worktree
                                 (/tmp/seed/<id>, /tmp/seed/<id>-out) and keep it as /verif/seeded/<id>/
  seed.py run <id> [PROP...]     apply /verif/seeded/<id>/patch.diff to /repo, run the quick checks
                                 (default: the property it targets), undo, record the outcome
"""
import json, os, subprocess, sys, shutil, time, glob

ROOT = os.path.dirname(os.path.dirname(os.path.abspath(__file__)))
SEEDED = os.path.join(ROOT, "seeded")
NEXTEST = "cargo nextest run --workspace --no-fail-fast --tool-config-file pb:/w/lib/nextest.toml --profile pb --test-threads 8 --offline"


def sh(cmd, cwd, env=None, timeout=3600):
    e = dict(os.environ)
    if env:
        e.update(env)
    p = subprocess.run(cmd, cwd=cwd, shell=True, env=e, stdout=subprocess.PIPE, stderr=subprocess.STDOUT, text=True, timeout=timeout)
    return p.returncode, p.stdout


def verify(sid):
    wt = "/tmp/seed/%s" % sid
    out = "/tmp/seed/%s-out" % sid
    env = {"CARGO_TARGET_DIR": wt + "/target"}
    meta = json.load(open(out + "/meta.json"))
    demo_cmd = open(out + "/demo_cmd.txt").read().strip()
    rc, o = sh("git status --porcelain --untracked-files=no", wt)
    assert o.strip() == "", "worktree not clean: " + o
    rc, o = sh("git apply --check %s/patch.diff" % out, wt)
    assert rc == 0, o
    sh("git apply %s/patch.diff" % out, wt)
    res = {}
    # the demo test lives untracked in the worktree: hide it while the repository's own suite runs
    rc, o = sh("git ls-files --others --exclude-standard", wt)
    untracked = [l for l in o.splitlines() if l.strip() and not l.startswith("target")]
    hidden = []
    for u in untracked:
        dst = os.path.join(out, "hidden_" + u.replace("/", "__"))
        shutil.move(os.path.join(wt, u), dst)
        hidden.append((os.path.join(wt, u), dst))
    try:
        rc, o = sh(NEXTEST, wt, env)
        tail = [l for l in o.splitlines() if "Summary" in l]
        res["suite_with_change"] = tail[-1].strip() if tail else o[-300:]
        suite_ok = rc == 0 and "138 passed" in (tail[-1] if tail else "")
        for a, b in hidden:
            shutil.move(b, a)
        hidden = []
        rc, o = sh(demo_cmd, wt, env)
        res["demo_with_change_rc"] = rc
    finally:
        for a, b in hidden:
            shutil.move(b, a)
        sh("git checkout -- .", wt)
    rc2, o2 = sh(demo_cmd, wt, env)
    res["demo_without_change_rc"] = rc2
    ok = suite_ok and res["demo_with_change_rc"] != 0 and rc2 == 0
    res["confirmed"] = ok
    print(json.dumps(res, indent=1))
    if not ok:
        print("NOT CONFIRMED")
        return 1
    d = os.path.join(SEEDED, sid)
    os.makedirs(d, exist_ok=True)
    shutil.copy(out + "/patch.diff", d)
    shutil.copy(out + "/demo_cmd.txt", d)
    for f in glob.glob(out + "/*.rs"):
        shutil.copy(f, d)
    meta["confirmed_by_me"] = res
    meta["what_i_ran"] = [NEXTEST + " (with the change: 138 passed)", demo_cmd + " (fails with the change, passes without)"]
    json.dump(meta, open(os.path.join(d, "meta.json"), "w"), indent=1)
    print("kept as", d)
    return 0


def run(sid, props, tier="quick"):
    d = os.path.join(SEEDED, sid)
    meta = json.load(open(os.path.join(d, "meta.json")))
    if not props:
        props = [meta["property"]]
    rc, o = sh("git status --porcelain --untracked-files=no", "/repo")
    assert o.strip() == "", "/repo not clean"
    rc, o = sh("git apply %s/patch.diff" % d, "/repo")
    assert rc == 0, o
    results = {}
    try:
        for p in props:
            t = time.time()
            rc, o = sh("./check %s --tier %s" % (p, tier), ROOT)
            vio = [l for l in o.splitlines() if l.startswith("VIOLATION")]
            first = [l for l in o.splitlines() if l.startswith("  ") and ":" in l][:2]
            results[p] = {"exit": rc, "violations": len(vio), "first": first, "wall_s": round(time.time() - t, 1)}
            print(p, results[p], flush=True)
    finally:
        sh("git checkout -- .", "/repo")
    meta.setdefault("check_results", {}).update({tier + ":" + k: v for k, v in results.items()})
    json.dump(meta, open(os.path.join(d, "meta.json"), "w"), indent=1)
    return 0


if __name__ == "__main__" and sys.argv[1] != "summary":
    if sys.argv[1] == "verify":
        sys.exit(verify(sys.argv[2]))
    if sys.argv[1] == "run":
        tier = "quick"
        args = sys.argv[3:]
        if "--thorough" in args:
            tier = "thorough"
            args.remove("--thorough")
        sys.exit(run(sys.argv[2], args, tier))


def summary():
    rows = []
    for d in sorted(glob.glob(os.path.join(SEEDED, "*", "meta.json"))):
        m = json.load(open(d))
        sid = os.path.basename(os.path.dirname(d))
        res = m.get("check_results", {})
        caught = sorted(k for k, v in res.items() if v.get("exit") == 1)
        missed = sorted(k for k, v in res.items() if v.get("exit") == 0)
        rows.append((sid, m.get("property"), m.get("summary", "").replace("\n", " ")[:220], m.get("needs_to_manifest", "").replace("\n", " ")[:260], ", ".join(caught), ", ".join(missed)))
    with open(os.path.join(SEEDED, "SUMMARY.md"), "w") as f:
        f.write("# Seeded property-breaking changes and which checks report them\n\n")
        f.write("Produced by fresh sub-agents that saw only the property text and a scratch worktree; each confirmed by `lib/seed.py verify` "
                "(138 tests green with the change, demo fails with it / passes without) and run with `lib/seed.py run` (patch applied to /repo, checks run, patch undone).\n"
                "`check_results` keys are `<tier>:<property>`; a check listed under *not reporting* was run and stayed silent — for checks of other properties that is expected "
                "when the change does not violate them, for the targeted property see DESIGN.md section 8 for what was strengthened afterwards (the table shows the latest runs).\n\n")
        f.write("| id | property | change | needs | reported by | run but not reporting |\n|---|---|---|---|---|---|\n")
        for r in rows:
            f.write("| %s | %s | %s | %s | %s | %s |\n" % r)
    print("wrote", os.path.join(SEEDED, "SUMMARY.md"), len(rows), "seeds")


if __name__ == "__main__" and len(sys.argv) > 1 and sys.argv[1] == "summary":
    summary()
