#!/bin/bash
# usage: lib/mutate_queue.sh <parallel lanes> "target:stride:offset" ...   (each lane cleans up its scratch copy afterwards)
cd "$(dirname "$0")/.."
par=$1; shift
mkdir -p target/mut
printf '%s\n' "$@" | xargs -P "$par" -I{} bash -c 'IFS=: read t s o <<< "{}"; python3 lib/mutate.py run $t --stride $s --offset $o > target/mut/$t.log 2>&1; python3 lib/mutate.py clean $t >/dev/null 2>&1'
