#!/usr/bin/env python3
"""Mechanical mutation run: which single-token changes of one source file do the quick explorers report?

This is an *evaluation of the checkers*, not a check of the code: it answers "had this line been written slightly
differently, would a quick run have said so?" for every candidate site of a file (or every k-th with --stride), and
lists the survivors for triage (equivalent mutants vs blind spots).  It complements the sub-agent seeds of
DESIGN.md section 8, which are realistic but few.

It never touches /repo: each lane works on its own scratch worktree of /repo's HEAD under /tmp/mut/<lane>/repo and on a
copy of /verif/mc whose path dependencies point there; both are removed by `mutate.py clean <lane>`.

usage: lib/mutate.py run <target> [--stride K] [--offset O] [--limit N] [--lane NAME]
       lib/mutate.py clean <lane>
       lib/mutate.py report
"""
import json, os, re, shutil, subprocess, sys, time

ROOT = os.path.dirname(os.path.dirname(os.path.abspath(__file__)))
sys.path.insert(0, os.path.join(ROOT, "lib"))
import plan  # noqa: E402

OUT = os.path.join(ROOT, "mutation")
GUARD = "--cfg curve25519_dalek_verif"

# target -> file, configuration to build, explorers to run (prop, dispatch), optional line range
TARGETS = {
    "u32field":   {"file": "curve25519-dalek/src/backend/serial/u32/field.rs", "config": "serial32", "props": [("C01", "auto"), ("C03", "auto")]},
    "u32scalar":  {"file": "curve25519-dalek/src/backend/serial/u32/scalar.rs", "config": "serial32", "props": [("C02", "auto")]},
    "u64field":   {"file": "curve25519-dalek/src/backend/serial/u64/field.rs", "config": "serial64", "props": [("C01", "auto"), ("C03", "auto")]},
    "u64scalar":  {"file": "curve25519-dalek/src/backend/serial/u64/scalar.rs", "config": "serial64", "props": [("C02", "auto")]},
    "fiat64field": {"file": "curve25519-dalek/src/backend/serial/fiat_u64/field.rs", "config": "fiat64", "props": [("C01", "auto"), ("C03", "auto")]},
    "fiat32field": {"file": "curve25519-dalek/src/backend/serial/fiat_u32/field.rs", "config": "fiat32", "props": [("C01", "auto"), ("C03", "auto")]},
    "avx2field":  {"file": "curve25519-dalek/src/backend/vector/avx2/field.rs", "config": "simd", "props": [("C01", "auto"), ("C04", "auto")]},
    "avx2edwards": {"file": "curve25519-dalek/src/backend/vector/avx2/edwards.rs", "config": "simd", "props": [("C03", "auto"), ("C04", "auto")]},
    "ifmafield":  {"file": "curve25519-dalek/src/backend/vector/ifma/field.rs", "config": "avx512", "props": [("C01", "auto"), ("C04", "auto")]},
    "ifmaedwards": {"file": "curve25519-dalek/src/backend/vector/ifma/edwards.rs", "config": "avx512", "props": [("C03", "auto"), ("C04", "auto")]},
    "curvemodels": {"file": "curve25519-dalek/src/backend/serial/curve_models/mod.rs", "config": "serial64", "props": [("C03", "auto"), ("C04", "auto"), ("C06", "auto")]},
    "straus_serial": {"file": "curve25519-dalek/src/backend/serial/scalar_mul/straus.rs", "config": "simd", "props": [("C04", "serial"), ("C13", "serial")]},
    "pippenger_serial": {"file": "curve25519-dalek/src/backend/serial/scalar_mul/pippenger.rs", "config": "simd", "props": [("C04", "serial")]},
    "varbase_serial": {"file": "curve25519-dalek/src/backend/serial/scalar_mul/variable_base.rs", "config": "simd", "props": [("C04", "serial")]},
    "doublebase_serial": {"file": "curve25519-dalek/src/backend/serial/scalar_mul/vartime_double_base.rs", "config": "simd", "props": [("C04", "serial"), ("C09", "serial"), ("C04", "serial", "rel-notables"), ("C09", "serial", "rel-notables")]},
    "precomp_serial": {"file": "curve25519-dalek/src/backend/serial/scalar_mul/precomputed_straus.rs", "config": "simd", "props": [("C04", "serial")]},
    "straus_vector": {"file": "curve25519-dalek/src/backend/vector/scalar_mul/straus.rs", "config": "simd", "props": [("C04", "auto")]},
    "pippenger_vector": {"file": "curve25519-dalek/src/backend/vector/scalar_mul/pippenger.rs", "config": "simd", "props": [("C04", "auto")]},
    "varbase_vector": {"file": "curve25519-dalek/src/backend/vector/scalar_mul/variable_base.rs", "config": "simd", "props": [("C04", "auto")]},
    "doublebase_vector": {"file": "curve25519-dalek/src/backend/vector/scalar_mul/vartime_double_base.rs", "config": "simd", "props": [("C04", "auto"), ("C09", "auto"), ("C04", "auto", "rel-notables")]},
    "precomp_vector": {"file": "curve25519-dalek/src/backend/vector/scalar_mul/precomputed_straus.rs", "config": "simd", "props": [("C04", "auto")]},
    "window":     {"file": "curve25519-dalek/src/window.rs", "config": "simd", "props": [("C04", "auto"), ("C04", "serial"), ("C12", "auto"), ("C04", "serial", "rel-notables"), ("C04", "auto", "rel-notables")]},
    "scalar":     {"file": "curve25519-dalek/src/scalar.rs", "config": "simd", "props": [("C02", "auto"), ("C04", "auto"), ("C17", "auto")]},
    "field":      {"file": "curve25519-dalek/src/field.rs", "config": "simd", "props": [("C01", "auto"), ("C03", "auto"), ("C06", "auto")]},
    "edwards":    {"file": "curve25519-dalek/src/edwards.rs", "config": "simd", "props": [("C03", "auto"), ("C04", "auto"), ("C17", "auto")]},
    "montgomery": {"file": "curve25519-dalek/src/montgomery.rs", "config": "simd", "props": [("C07", "auto"), ("C04", "auto")]},
    "ristretto":  {"file": "curve25519-dalek/src/ristretto.rs", "config": "simd", "props": [("C06", "auto"), ("C04", "auto"), ("C17", "auto")]},
    "ed_verifying": {"file": "ed25519-dalek/src/verifying.rs", "config": "simd", "props": [("C09", "auto"), ("C08", "auto"), ("C15", "auto")]},
    "ed_signing": {"file": "ed25519-dalek/src/signing.rs", "config": "simd", "props": [("C08", "auto"), ("C09", "auto")]},
    "ed_hazmat":  {"file": "ed25519-dalek/src/hazmat.rs", "config": "simd", "props": [("C08", "auto")]},
    "ed_batch":   {"file": "ed25519-dalek/src/batch.rs", "config": "simd", "props": [("C13", "auto"), ("C15", "auto")]},
    "ed_signature": {"file": "ed25519-dalek/src/signature.rs", "config": "simd", "props": [("C09", "auto"), ("C15", "auto")]},
    "x25519":     {"file": "x25519-dalek/src/x25519.rs", "config": "simd", "props": [("C07", "auto"), ("C14", "auto")]},
}

SECOND_PASS = ["C12", "C07", "C06", "C04", "C03", "C02", "C01", "C09", "C08", "C13", "C17", "C16", "C15", "C14"]
NUM = re.compile(r"(?<![\w.'])(\d+)(?![\w.])")
HEX = re.compile(r"(?<![\w])0x([0-9a-fA-F_]+)")
SWAPS = [(" + ", " - "), (" - ", " + "), (" << ", " >> "), (" >> ", " << "), (" & ", " | "), (" | ", " & "), (" ^ ", " & "),
         (" += ", " -= "), (" -= ", " += "), (" &= ", " |= "), (" |= ", " &= "), (" == ", " != "), (" != ", " == "),
         (" <= ", " < "), (" >= ", " > "), (" && ", " || "), (" || ", " && "),
         ("wrapping_add", "wrapping_sub"), ("wrapping_sub", "wrapping_add"), (".rev()", ""), ("!", "")]
CMP_LT = re.compile(r" < (?=[\w(])")
CMP_GT = re.compile(r" > (?=[\w(])")


def sh(cmd, cwd=None, env=None, timeout=None):
    return subprocess.run(cmd, cwd=cwd, env=env, stdout=subprocess.PIPE, stderr=subprocess.STDOUT, text=True, timeout=timeout)


def code_lines(src):
    """Indices of lines that are candidate code: outside the test module, not comments / attributes / assertions."""
    out = []
    in_test = False
    depth_block_comment = 0
    for i, l in enumerate(src):
        s = l.strip()
        if re.match(r"#\[cfg\(test\)\]", s) and i + 1 < len(src) and re.match(r"\s*(pub(\([a-z]+\))? )?mod ", src[i + 1]):
            in_test = True
        if in_test:
            continue
        if "/*" in s:
            depth_block_comment += 1
        if depth_block_comment:
            if "*/" in s:
                depth_block_comment -= 1
            continue
        if not s or s.startswith("//") or s.startswith("#[") or s.startswith("#![") or s.startswith("use ") or s.startswith("debug_assert") \
                or s.startswith("assert") or "curve25519_dalek_verif" in s or s.startswith("type ") or s.startswith("pub type "):
            continue
        out.append(i)
    return out


def strip_comment(l):
    k = l.find("//")
    return (l, "") if k < 0 else (l[:k], l[k:])


def mutants_of_line(line):
    """Yield (description, new_line)."""
    code, com = strip_comment(line.rstrip("\n"))
    res = []
    # decimal literals: +1 / -1
    for m in NUM.finditer(code):
        n = int(m.group(1))
        # skip type-ish contexts: u8/u32/i64 suffixes are excluded by the regex; skip array-type lengths "; 32]" followed by type position? keep (compile error if wrong)
        for d in ((1, -1) if n > 0 else (1,)):
            v = n + d
            res.append(("lit %d->%d @%d" % (n, v, m.start()), code[:m.start()] + str(v) + code[m.end():] + com))
    for m in HEX.finditer(code):
        h = m.group(1).replace("_", "")
        n = int(h, 16)
        for v in (n >> 1, n ^ 1):
            if v == n:
                continue
            res.append(("hex %x->%x @%d" % (n, v, m.start()), code[:m.start()] + hex(v) + code[m.end():] + com))
    for a, b in SWAPS:
        start = 0
        while True:
            k = code.find(a, start)
            if k < 0:
                break
            if a == "!" and (code[k:k + 2] == "!=" or (k > 0 and (code[k - 1].isalnum() or code[k - 1] == "_"))):  # macro! or !=
                start = k + 1
                continue
            res.append(("%s->%s @%d" % (a.strip(), b.strip() or "(del)", k), code[:k] + b + code[k + len(a):] + com))
            start = k + len(a)
    if re.search(r"\b(if|while|assert|for)\b", code) or "Choice" in code or "ct_" in code:
        for m in CMP_LT.finditer(code):
            res.append(("<-><= @%d" % m.start(), code[:m.start()] + " <= " + code[m.end():] + com))
        for m in CMP_GT.finditer(code):
            res.append((">->>= @%d" % m.start(), code[:m.start()] + " >= " + code[m.end():] + com))
    # statement deletion: compound assignments and bare calls
    s = code.strip()
    if s.endswith(";") and not s.startswith("let ") and not s.startswith("return") and (re.search(r"[-+&|^*]= ", s) or re.match(r"^[\w.\[\]]+\(.*\);$", s) or re.match(r"^[\w.\[\]]+ = ", s)):
        res.append(("delete statement", re.match(r"\s*", code).group(0) + "// (deleted)" + com))
    return res


def setup(lane, config, variant):
    base = os.path.join("/tmp/mut", lane)
    repo = os.path.join(base, "repo")
    mc = os.path.join(base, "mc")
    os.makedirs(base, exist_ok=True)
    if not os.path.exists(repo):
        r = sh(["git", "-C", "/repo", "worktree", "add", "--detach", repo])
        assert r.returncode == 0, r.stdout
    sh(["git", "-C", repo, "checkout", "--", "."])
    if os.path.exists(mc):
        shutil.rmtree(mc)
    shutil.copytree(os.path.join(ROOT, "mc"), mc, ignore=shutil.ignore_patterns("target"))
    ct = open(os.path.join(mc, "Cargo.toml")).read().replace('"/repo/', '"%s/' % repo)
    open(os.path.join(mc, "Cargo.toml"), "w").write(ct)
    return base, repo, mc


def build(mc, base, config, variant):
    c = plan.CONFIGS[config]
    v = plan.VARIANTS[variant]
    env = dict(os.environ)
    env["CARGO_NET_OFFLINE"] = "true"
    env["RUSTFLAGS"] = (GUARD + " " + c["rustflags"]).strip()
    env["CARGO_TARGET_DIR"] = os.path.join(base, "target-" + config)
    cmd = ["cargo"] + (["+" + c["toolchain"]] if c["toolchain"] != "stable" else []) + ["build", "--offline", "--profile", v["profile"], "--no-default-features"]
    if v["features"]:
        cmd += ["--features", ",".join(v["features"])]
    p = sh(cmd, cwd=mc, env=env, timeout=1800)
    return p.returncode == 0, p.stdout, os.path.join(env["CARGO_TARGET_DIR"], v["profile"], "dalek-mc")


def run_props(exes, base, props, timeout):
    """Returns (verdict, detail).  `exes`: variant -> binary, or a callable building it on demand."""
    for ent in props:
        prop, dispatch = ent[0], ent[1]
        variant = ent[2] if len(ent) > 2 else "rel"
        exe = exes(variant)
        if exe is None:
            return "compile_error", variant
        out = os.path.join(base, "out.json")
        if os.path.exists(out):
            os.remove(out)
        try:
            p = sh([exe, prop, "--tier", "quick", "--out", out, "--dispatch", dispatch], cwd=base, timeout=timeout)
        except subprocess.TimeoutExpired:
            return "timeout", "%s/%s/%s" % (prop, dispatch, variant)
        if not os.path.exists(out):
            return "crash", "%s/%s/%s exit %s: %s" % (prop, dispatch, variant, p.returncode, p.stdout[-300:])
        j = json.load(open(out))
        if j.get("violations"):
            v = j["violations"][0]
            return "caught", "%s/%s/%s: %s: %s" % (prop, dispatch, variant, v.get("key"), str(v.get("message"))[:160])
    return "survived", ""


def run(target, stride, offset, limit, lane, variant="rel"):
    t = TARGETS[target]
    lane = lane or target
    base, repo, mc = setup(lane, t["config"], variant)
    path = os.path.join(repo, t["file"])
    orig = open(path).read()
    src = orig.split("\n")
    sites = []
    for i in code_lines(src):
        if t.get("lines") and not (t["lines"][0] <= i + 1 <= t["lines"][1]):
            continue
        for desc, new in mutants_of_line(src[i]):
            sites.append((i, desc, new))
    chosen = sites[offset::stride]
    if LINES:
        chosen = [c for c in sites if LINES[0] <= c[0] + 1 <= LINES[1]]
    if SURVIVORS and os.path.exists(os.path.join(OUT, "%s.json" % target)):
        surv = set((r["line"], r["mutation"]) for r in json.load(open(os.path.join(OUT, "%s.json" % target)))["results"] if r["verdict"] == "survived")
        chosen = [c for c in sites if (c[0] + 1, c[1]) in surv]
    if limit:
        chosen = chosen[:limit]
    print("%s: %d candidate mutants, running %d (stride %d offset %d) on %s" % (target, len(sites), len(chosen), stride, offset, t["config"]), flush=True)
    def builder():
        cache = {}

        def get(var):
            if var not in cache:
                ok, log, exe = build(mc, base, t["config"], var)
                cache[var] = exe if ok else None
                if not ok:
                    cache["log"] = log
            return cache[var]
        return get, cache
    get, cache = builder()
    assert get("rel") is not None, cache.get("log", "")[-3000:]
    t0 = time.time()
    v, d = run_props(get, base, t["props"], 900)
    base_time = time.time() - t0
    assert v == "survived", "baseline is not clean: %s %s" % (v, d)
    timeout = max(120, int(base_time * 6))
    results = []
    os.makedirs(OUT, exist_ok=True)
    outp = os.path.join(OUT, "%s.json" % target)
    prev = {}
    if os.path.exists(outp):
        for r in json.load(open(outp))["results"]:
            prev[(r["line"], r["mutation"])] = r
    try:
        for n, (i, desc, new) in enumerate(chosen):
            key = (i + 1, desc)
            if key in prev and prev[key].get("harness") == harness_id():
                results.append(prev[key])
                continue
            m = list(src)
            m[i] = new
            open(path, "w").write("\n".join(m))
            t1 = time.time()
            get, cache = builder()
            if get(t["props"][0][2] if len(t["props"][0]) > 2 else "rel") is None:
                verdict, detail = "compile_error", ""
            else:
                verdict, detail = run_props(get, base, t["props"], timeout)
                if verdict == "survived":
                    # second pass: every other quick explorer of this configuration (a constant is C12's business, the
                    # ladder's swap is C07's, ...); C05/C10/C11 are compositions of these and are not run here
                    rest = [(p, t["props"][0][1]) for p in SECOND_PASS if p not in [e[0] for e in t["props"]]]
                    verdict, detail = run_props(get, base, rest, timeout)
                    if verdict != "survived":
                        detail = "(second pass) " + detail
            r = {"line": i + 1, "mutation": desc, "old": src[i].strip()[:200], "new": new.strip()[:200], "verdict": verdict, "detail": detail, "seconds": round(time.time() - t1, 1), "harness": harness_id()}
            results.append(r)
            print("[%d/%d] L%d %-28s %-13s %s" % (n + 1, len(chosen), i + 1, desc[:28], verdict, detail[:110]), flush=True)
            save(outp, target, t, results, prev, len(sites), stride, offset)
    finally:
        open(path, "w").write(orig)
    save(outp, target, t, results, prev, len(sites), stride, offset)
    summarize(outp)


LINES = None
SURVIVORS = False
_HID = None


def harness_id():
    global _HID
    if _HID is None:
        _HID = sh(["git", "-C", ROOT, "rev-parse", "--short", "HEAD"]).stdout.strip()
    return _HID


def save(outp, target, t, results, prev, nsites, stride, offset):
    merged = dict(prev)
    for r in results:
        merged[(r["line"], r["mutation"])] = r
    rs = sorted(merged.values(), key=lambda r: (r["line"], r["mutation"]))
    json.dump({"target": target, "file": t["file"], "config": t["config"], "explorers": t["props"], "candidate_mutants": nsites, "results": rs}, open(outp, "w"), indent=1)


def summarize(outp):
    j = json.load(open(outp))
    c = {}
    for r in j["results"]:
        c[r["verdict"]] = c.get(r["verdict"], 0) + 1
    live = sum(v for k, v in c.items() if k != "compile_error")
    killed = c.get("caught", 0) + c.get("crash", 0) + c.get("timeout", 0)
    print("%s: %s  -> reported %d of %d compiling mutants" % (j["target"], c, killed, live))
    for r in j["results"]:
        if r["verdict"] == "survived":
            print("   SURVIVED L%d %s | %s" % (r["line"], r["mutation"], r["new"][:140]))


def report():
    lines = ["| target | file | configuration / explorers | mutants run | not compiling | reported | survived |", "|---|---|---|---|---|---|---|"]
    for f in sorted(os.listdir(OUT)):
        if not f.endswith(".json"):
            continue
        j = json.load(open(os.path.join(OUT, f)))
        c = {}
        for r in j["results"]:
            c[r["verdict"]] = c.get(r["verdict"], 0) + 1
        killed = c.get("caught", 0) + c.get("crash", 0) + c.get("timeout", 0)
        lines.append("| %s | %s | %s: %s | %d | %d | %d | %d |" % (j["target"], j["file"], j["config"], ", ".join("/".join(e) for e in j["explorers"]), len(j["results"]), c.get("compile_error", 0), killed, c.get("survived", 0)))
    open(os.path.join(OUT, "SUMMARY.md"), "w").write("\n".join(lines) + "\n")
    print("\n".join(lines))


if __name__ == "__main__":
    a = sys.argv[1:]
    if a[0] == "run":
        def opt(name, default):
            return int(a[a.index(name) + 1]) if name in a else default
        lane = a[a.index("--lane") + 1] if "--lane" in a else None
        if "--lines" in a:
            lo, hi = a[a.index("--lines") + 1].split("-")
            LINES = (int(lo), int(hi))
        SURVIVORS = "--survivors" in a
        run(a[1], opt("--stride", 1), opt("--offset", 0), opt("--limit", 0), lane)
    elif a[0] == "clean":
        base = os.path.join("/tmp/mut", a[1])
        sh(["git", "-C", "/repo", "worktree", "remove", "--force", os.path.join(base, "repo")])
        shutil.rmtree(base, ignore_errors=True)
    elif a[0] == "report":
        report()
    elif a[0] == "summary":
        summarize(os.path.join(OUT, a[1] + ".json"))
