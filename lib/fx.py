"""C14 over the feature lattice: the small `fx` binary is built once per feature subset (zeroize on) and reports, for
every secret-holding type that exists in that build, whether a dropped value's bytes reach the allocator unwiped."""
import itertools, json, os, subprocess

ROOT = os.path.dirname(os.path.dirname(os.path.abspath(__file__)))
FX = os.path.join(ROOT, "fx")
TARGET = os.path.join(ROOT, "target", "fx")
FEATURES = ["static_secrets", "reusable_secrets", "hazmat", "ed_std"]


def subsets(tier):
    if tier == "quick":
        return [[], ["reusable_secrets"], ["static_secrets"], ["hazmat"], ["static_secrets", "reusable_secrets", "hazmat", "ed_std"]]
    out = []
    for n in range(len(FEATURES) + 1):
        for c in itertools.combinations(FEATURES, n):
            out.append(list(c))
    out.append(FEATURES + ["tables"])
    return out


def build_run(features):
    env = dict(os.environ)
    env["CARGO_NET_OFFLINE"] = "true"
    env["CARGO_TARGET_DIR"] = TARGET
    cmd = ["cargo", "build", "--offline", "--release"]
    if features:
        cmd += ["--features", ",".join(features)]
    p = subprocess.run(cmd, cwd=FX, env=env, stdout=subprocess.PIPE, stderr=subprocess.STDOUT, text=True)
    if p.returncode != 0:
        raise RuntimeError("fx build failed for %s:\n%s" % (features, p.stdout[-3000:]))
    q = subprocess.run([os.path.join(TARGET, "release", "dalek-fx")], stdout=subprocess.PIPE, stderr=subprocess.PIPE, text=True, timeout=600)
    if q.returncode != 0:
        raise RuntimeError("fx run failed for %s: %s" % (features, q.stderr[-1000:]))
    return [json.loads(l) for l in q.stdout.splitlines() if l.strip()]


def evaluate(features, rows):
    """-> (violations, n_cases, types)"""
    vios = []
    ctrl = [r for r in rows if r["type"].startswith("CONTROL")]
    if not ctrl or any(r["leak"] is None for r in ctrl):
        raise RuntimeError("fx positive control failed for %s: the observer does not see an unwiped block" % features)
    n = 0
    types = set()
    for r in rows:
        if r["type"].startswith("CONTROL"):
            continue
        n += 1
        types.add(r["type"])
        if r["leak"] is not None:
            vios.append({
                "key": "drop.features.%s" % r["type"],
                "what": "with features %s: after %s, a freed block of %s still contains bytes of the secret (block %d, offset %d)" % (
                    features or "(none)", r["lifecycle"], r["type"], r["leak"]["block"], r["leak"]["offset"]),
                "case": {"kind": "feature_lattice", "features": features, "type": r["type"], "lifecycle": r["lifecycle"], "secret": r["secret"]},
                "config": {"config": "fx-" + "+".join(features or ["none"]), "variant": "zeroize", "dispatch": "auto"},
            })
    return vios, n, sorted(types)


def post(pid, tier, partials, scratch, bins):
    vios, total, groups = [], 0, []
    for f in subsets(tier):
        rows = build_run(f)
        v, n, types = evaluate(f, rows)
        vios += v
        total += n
        groups.append({"features": f, "types": types, "cases": n, "leaks": len(v)})
    return {"violations": vios, "evaluations": total, "distinct_nontrivial": total,
            "coverage": {"feature_lattice": groups,
                         "feature_lattice_rule": "the fx binary is built once per subset of {static_secrets, reusable_secrets, hazmat, std} (zeroize on) and every secret-holding type of that build goes through create/use/clone/drop lifecycles on 3 secrets; a positive control (unwiped array) must be seen in every build"}}
