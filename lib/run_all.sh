#!/bin/bash
# usage: lib/run_all.sh quick|thorough [IDs...]   -> one summary line per property
tier=${1:-quick}; shift
ids=${@:-C01 C02 C03 C04 C05 C06 C07 C08 C09 C10 C11 C12 C13 C14 C15 C16 C17}
cd "$(dirname "$0")/.."
for p in $ids; do
  s=$(date +%s)
  out=$(./check $p --tier $tier 2>&1)
  rc=$?
  echo "$p rc=$rc $(( $(date +%s) - s ))s :: $(echo "$out" | grep -E '^(OK|VIOLATION|KNOWN-FINDING|MACHINERY)' | head -3 | tr '\n' ' ')"
  if [ $rc -ne 0 ]; then echo "$out" | tail -15 | sed 's/^/    /'; fi
done
