"""Which configurations each property's check builds and runs, and the evidence metadata."""

CONFIGS = {
    "simd":     {"toolchain": "stable",  "rustflags": "--cfg mc_avx2"},
    "serial64": {"toolchain": "stable",  "rustflags": '--cfg curve25519_dalek_backend="serial" --cfg curve25519_dalek_bits="64"'},
    "serial32": {"toolchain": "stable",  "rustflags": '--cfg curve25519_dalek_backend="serial" --cfg curve25519_dalek_bits="32"'},
    "fiat64":   {"toolchain": "stable",  "rustflags": '--cfg curve25519_dalek_backend="fiat" --cfg curve25519_dalek_bits="64"'},
    "fiat32":   {"toolchain": "stable",  "rustflags": '--cfg curve25519_dalek_backend="fiat" --cfg curve25519_dalek_bits="32"'},
    "avx512":   {"toolchain": "nightly", "rustflags": '--cfg curve25519_dalek_backend="unstable_avx512" --cfg mc_avx2 --cfg mc_ifma'},
}

VARIANTS = {
    "rel":          {"profile": "release", "features": ["tables", "zeroize", "ed"]},
    "rel-notables": {"profile": "release", "features": ["zeroize", "ed"]},
    "chk":          {"profile": "checked", "features": ["tables", "zeroize", "ed"]},
    "chk-notables": {"profile": "checked", "features": ["zeroize", "ed"]},
    "rel-legacy":   {"profile": "release", "features": ["tables", "legacy", "zeroize", "ed"]},
    # curve25519-dalek and x25519-dalek built without their `zeroize` feature (C05: a feature that must not change any
    # result); ed25519-dalek is left out of this build because its alloc feature switches zeroize back on everywhere
    "rel-nozeroize": {"profile": "release", "features": ["tables"]},
}

ALL_BACKENDS = ["simd", "serial64", "serial32", "fiat64", "fiat32", "avx512"]


def R(config, variant="rel", dispatch="auto", **kw):
    d = {"config": config, "variant": variant, "dispatch": dispatch}
    d.update(kw)
    return d


COMMON_ASSUMPTIONS = [
    "the reference model (hand-written integer arithmetic mod p and mod l, affine Edwards law, RFC 7748/8032/9496 transcriptions) is correct; it is self-tested against published vectors at the start of every run",
    "the cfg(curve25519_dalek_verif) hooks forward to the crate-private functions unchanged",
    "verdicts are relative to the enumerated alphabet and bounds listed under coverage.configurations[].bounds",
]

# The configurations every functional property runs in its quick tier: the default build (AVX2 dispatch), the serial
# algorithms inside that build, the 32-bit backend with and without precomputed tables (the tables-off code paths are
# different code), the IFMA build and the fiat 64-bit build (its own field wrappers).  Earlier seeds showed that any of these left out of a quick tier is a blind spot.
QSET = [R("simd"), R("simd", dispatch="serial"), R("serial32"), R("serial32", "rel-notables"), R("avx512"), R("fiat64")]



def T(lst):
    """A thorough run list, completed with whatever member of the quick standard set (and the tables-off serial
    dispatch of the default build) it does not already contain."""
    have = [(r["config"], r["variant"], r.get("dispatch", "auto")) for r in lst]
    extra = [q for q in QSET + [R("simd", "rel-notables", dispatch="serial")] if (q["config"], q["variant"], q.get("dispatch", "auto")) not in have]
    return lst + extra


PROPS = {}
NOT_APPLICABLE = {}
ENGINES = [
    {"name": "dalek-mc", "path": "/verif/mc", "serves_properties": [],
     "kind_free_text": "Rust explorer linked against /repo's crates (one binary per backend configuration): stateright explicit-state BFS over operation histories and exhaustive enumeration of structured alphabets, each transition executing the real code in lock-step with a hand-written reference model"},
]

PROPS["C01"] = {
    "level": "model_checking",
    "rule": "explicit-state BFS (stateright) of a register machine over the real FieldElement started from raw-limb lattice corners, "
            "plus complete depth-1 products of the limb lattice for every unary/binary op, plus decoding/sqrt-ratio/batch-invert alphabets; "
            "every transition executes the real code and compares as_bytes/predicates with integer arithmetic mod p. "
            "A state is non-trivial (counted in distinct_nontrivial) if it is a distinct (depth, limbs) state of the machine.",
    "assumptions": COMMON_ASSUMPTIONS,
    "runs": lambda tier: [R("simd"), R("serial32"), R("fiat64"), R("fiat32"), R("avx512")] if tier == "quick" else [R(b, deep=True) for b in ALL_BACKENDS],
    "level_text": "Explicit-state exploration of operation chains on the real field types from raw-limb lattice corners (all limbs at 0 / mask / headroom bound), every step compared with integer arithmetic mod p; exhaustive within the stated lattice, depth and pool, for every backend's representation.",
    "design_ref": "DESIGN.md section 4, C01",
    "level_note": "Decides the property for the enumerated limb lattice and depth only; trusted: reference model (self-tested), hooks forward unchanged, stateright search engine.",
    "technique": "explicit-state BFS (layered engine over stateright::Model machines) over real-code operation chains + exhaustive lattice enumeration against a reference model",
}


def _std(level, rule, level_text, design_ref, technique, runs, level_note=None, **kw):
    d = {
        "level": level, "rule": rule, "assumptions": COMMON_ASSUMPTIONS, "runs": runs,
        "level_text": level_text, "design_ref": design_ref, "technique": technique,
        "level_note": level_note or "Decides the property for the enumerated alphabets and bounds only; trusted: reference model (self-tested at start), hooks forward unchanged, search engine.",
    }
    d.update(kw)
    return d


PROPS["C02"] = _std(
    "model_checking",
    "explicit-state BFS over canonical scalar values (state = value; actions = +,-,*,neg,invert,square,double with a pool scalar on either side) with every transition executed by the real operators and compared with Z/lZ; "
    "plus exhaustive enumeration of the reducing constructors on the 256/512-bit corner alphabet, canonical decoding around l and 2^k, integer conversions, sums/products/batch inversion over all short sequences, "
    "and the unpacked limb kernels (hook H3) on their call-site domain. distinct_nontrivial = distinct machine states.",
    "Explicit-state exploration of operator chains on the real Scalar type against Z/lZ, plus exhaustive corner alphabets for every constructor, for both the 52-bit and 29-bit limb backends.",
    "DESIGN.md section 4, C02",
    "explicit-state BFS (layered engine over stateright::Model machines) over scalar values + exhaustive corner-alphabet enumeration against a reference model",
    lambda tier: [R("simd"), R("serial32"), R("simd", "rel-legacy"), R("fiat64")] if tier == "quick" else [R("simd", deep=True), R("serial32", deep=True), R("serial64"), R("fiat32"), R("fiat64"), R("simd", "rel-legacy"), R("serial32", "rel-legacy")],
)

PROPS["C03"] = _std(
    "model_checking",
    "explicit-state BFS over raw (X,Y,Z,T) limb representations of EdwardsPoint reached by operation histories (add/sub/neg/double/cofactor/recompress with pool points a*B+T_j, incl. all 8 torsion components and decoded points of unknown discrete log); "
    "oracle on every state: curve equation and XY=ZT on the exported limbs, affine point = complete affine addition law, compress, ==, is_identity, is_small_order, is_torsion_free; "
    "plus the decoder on ~1200-1300 structured encodings (every y in 0..255 and p-256..p+18 with both sign bits, non-canonical y, negative zero). distinct_nontrivial = distinct machine states.",
    "Explicit-state exploration of group-operation histories on the real EdwardsPoint representation against the affine twisted-Edwards law, with torsion and exceptional points in the alphabet; decoder enumerated on structured encodings.",
    "DESIGN.md section 4, C03",
    "explicit-state BFS (layered engine over stateright::Model machines) over real point representations + decoder alphabet enumeration against the affine group law",
    lambda tier: QSET if tier == "quick" else T([R("simd", deep=True), R("simd", dispatch="serial"), R("serial32"), R("serial64"), R("fiat64"), R("fiat32"), R("avx512"), R("avx512", dispatch="avx2")]),
)

PROPS["C04"] = _std(
    "exploration",
    "exhaustive enumeration of digit-transducer alphabets: for every (window index, carry-in, window value, background) of the radix-16/32/64/128/256 recodings and every (start position, window, background) of the width-5/8 NAF a scalar below 2^255 that drives the recoding through that state; "
    "each scalar goes through every single-scalar entry point (P*s, s*P, mul_base, all five table radices, clamped variants, vartime double-base, Montgomery ladder, Ristretto wrappers) on the basepoint and on points a*B+T_j with torsion; "
    "multiscalar entry points (CT Straus, vartime Straus/Pippenger, optional, precomputed static/dynamic mixes) at every size around 0/1/190/500/800; recoding contracts (value identity, digit ranges, non-adjacency) checked directly through hook H4. "
    "Expected values from the (a, j) decomposition in the model. distinct_nontrivial = distinct scalars whose recodings were checked.",
    "Exhaustive over a structured scalar/point/size alphabet that covers every state of each recoding transducer and every algorithm switch; each backend's copy via forced dispatch.",
    "DESIGN.md section 4, C04",
    "exhaustive enumeration of recoding-transducer states and size regimes against a reference model, per backend copy (forced dispatch)",
    lambda tier: QSET if tier == "quick" else T([R("simd"), R("simd", dispatch="serial"), R("simd", "rel-notables"), R("simd", "rel-notables", dispatch="serial"),
                  R("serial32"), R("serial32", "rel-notables"), R("serial64"), R("fiat64"), R("fiat32"),
                  R("avx512"), R("avx512", dispatch="avx2"), R("avx512", dispatch="serial"), R("avx512", "rel-notables")]),
)


PROPS["C06"] = _std(
    "model_checking",
    "explicit-state BFS over raw internal representatives of RistrettoPoint (actions: +,-,neg,double,recompress with pool elements, and explicit 4-torsion coset shifts through the hook) with oracle = RFC 9496 ENCODE of the model coset, coset equality, [l]P = 0, decode(encode(P)) = P; "
    "decoder on ~700 structured strings covering each RFC 9496 rejection class; one-way map on all pairs of corner field values incl. the solved exceptional preimages; batched double-and-compress on every <=3-tuple of a pool containing the identity and 4-torsion representatives. distinct_nontrivial = distinct machine states.",
    "Explicit-state exploration of Ristretto operation histories and coset representatives against a transcription of RFC 9496; decoder/one-way-map enumerated on structured alphabets.",
    "DESIGN.md section 4, C06",
    "explicit-state BFS over real representatives + alphabet enumeration against an RFC 9496 transcription",
    lambda tier: QSET if tier == "quick" else T([R("simd", deep=True), R("simd", dispatch="serial"), R("serial32", deep=True), R("serial32", "rel-notables"), R("serial64"), R("fiat64"), R("fiat32"), R("avx512")]),
)

PROPS["C07"] = _std(
    "exploration",
    "exhaustive product of a clamping-sensitive scalar alphabet with a u-coordinate alphabet (canonical, non-canonical, bit 255, small-order, twist, u=-1, images of torsion points) through byte-level x25519 and every typed Diffie-Hellman path; "
    "all bit strings up to a length bound (plus 255..512-bit patterns) through mul_bits_be; Montgomery<->Edwards conversions with both signs; equality/hash mod p; Ed25519->X25519 key conversions. Oracle: RFC 7748 pseudocode ladder. distinct_nontrivial = (scalar, u) pairs.",
    "Exhaustive over structured (k, u) alphabets and all short bit strings against the RFC 7748 ladder, which shares no code or formulas with the Edwards arithmetic.",
    "DESIGN.md section 4, C07",
    "exhaustive alphabet enumeration against an RFC 7748 transcription",
    lambda tier: QSET + [R("simd", "rel-legacy"), R("simd", "rel-nozeroize"), R("simd", "rel-notables", dispatch="serial")] if tier == "quick" else T([R(b) for b in ALL_BACKENDS] + [R("simd", "rel-notables"), R("simd", dispatch="serial"), R("simd", "rel-legacy"), R("serial32", "rel-legacy"), R("simd", "rel-nozeroize"), R("serial32", "rel-nozeroize")]),
)

PROPS["C08"] = _std(
    "model_checking",
    "(1) every (seed, message length, context length) of the alphabet through every signing entry point, bytes compared with RFC 8032 (pure and ph), contexts of 256/257/1000 bytes must be refused; hazmat signing with a scripted identity digest puts the nonce on 0, 1, l-1, l, 2^255, 2^256-1; "
    "(2) every (secret, public) pair through from_keypair_bytes; (3) explicit-state BFS over (key, message, context, signature provenance, R/S mutation) tuples from honest tuples, every state verified by all real verifiers and compared with the RFC acceptance rule. distinct_nontrivial = signing cases + machine states.",
    "Explicit-state exploration of (key, message, context, signature) tuples within mutation distance 2 of honest ones, plus exhaustive signing alphabets, against an RFC 8032 transcription self-tested on the RFC vectors.",
    "DESIGN.md section 4, C08",
    "explicit-state BFS over verification tuples + exhaustive signing alphabet against an RFC 8032 transcription",
    lambda tier: QSET if tier == "quick" else T([R(b, deep=(b == "simd")) for b in ALL_BACKENDS] + [R("simd", "rel-notables"), R("simd", dispatch="serial")]),
)

PROPS["C09"] = _std(
    "exploration",
    "full product of adversarial key encodings (8 torsion points in every canonical/non-canonical form, honest, honest+torsion, undecodable) x adversarial R (same classes) x S classes (0, 1, l-1, l, l+1, S+l, 2^252.., bit 255) x contexts, with messages manufactured by the model so that the cofactorless equation holds for small-order and mixed-order cases; "
    "every tuple through every verifier (plain, strict, prehashed, hazmat, trait impls) and compared with the documented rule; contexts longer than 255 bytes must be refused. distinct_nontrivial = tuples driven.",
    "Exhaustive over a structured adversarial alphabet that contains accepting small-order/mixed-order cases by construction; with and without legacy_compatibility.",
    "DESIGN.md section 4, C09",
    "exhaustive adversarial-alphabet enumeration against the documented acceptance rule",
    lambda tier: QSET + [R("simd", "rel-legacy")] if tier == "quick" else T([R("simd"), R("simd", "rel-legacy"), R("simd", dispatch="serial"), R("serial32"), R("serial32", "rel-legacy"), R("serial32", "rel-notables"), R("serial64"), R("fiat64"), R("fiat32"), R("avx512"), R("avx512", dispatch="avx2")]),
)


PROPS["C12"] = _std(
    "exploration",
    "complete enumeration of the finite set of precomputed constants: all 32x8 entries of the fixed-base table (exported limbs vs j*256^i*B computed by repeated affine addition, and each entry selected through mul_base with positive and negated digits), all 64 affine odd multiples, all 64 AVX2 and 64 IFMA cached odd multiples (lane ratios vs (2i+1)B, limb bounds), "
    "each odd-multiple table also selected through vartime double-base for every odd k<128 under each dispatch, every crate-private field/scalar constant (value from raw limbs and canonical bytes vs defining equation), vector constants 2p/16p and identities, basepoints, group order, EIGHT_TORSION = E[8] in documented order, Ristretto table = Edwards table, length constants, the ff-trait scalar constants (MODULUS text, NUM_BITS, CAPACITY, S, TWO_INV, MULTIPLICATIVE_GENERATOR, ROOT_OF_UNITY(_INV), DELTA) against their definitions. distinct_nontrivial = obligations checked.",
    "The space is finite and enumerated completely for each built configuration.",
    "DESIGN.md section 4, C12",
    "complete enumeration of all table entries and constants against their definitions in the reference model",
    lambda tier: [R("simd"), R("simd", dispatch="serial"), R("serial32"), R("serial64"), R("fiat64"), R("fiat32"), R("avx512")] if tier == "quick" else
                 [R("simd"), R("simd", dispatch="serial"), R("simd", "rel-notables"), R("serial32"), R("serial64"), R("fiat64"), R("fiat32"),
                  R("avx512"), R("avx512", dispatch="avx2"), R("avx512", dispatch="serial")],
    exhaustive=True,
)

PROPS["C16"] = _std(
    "exploration",
    "for each serialisable type: every value/encoding of its alphabet (corner scalars around l, ~500-2000 structured Edwards and Ristretto encodings incl. every rejection class, corner byte strings) serialised with bincode and JSON and compared with the reference wire form written from the serde data model; "
    "deserialisation of the reference forms through bincode, JSON, serde's SeqDeserializer and a scripted format-free deserializer must accept exactly when the native decoder (model) accepts; "
    "sequence scripts of every length 0..=34 and ill-typed elements at first/middle/last/trailing positions, JSON shape mutations, truncated and mis-sized byte strings (every length 0..=70 for the byte-string types). distinct_nontrivial = cases driven.",
    "Exhaustive over structured value alphabets and over a complete small alphabet of sequence shapes for every Deserialize impl.",
    "DESIGN.md section 4, C16",
    "exhaustive alphabet and sequence-shape enumeration against reference wire forms and the native decoders",
    lambda tier: [R("simd"), R("serial32"), R("fiat64")] if tier == "quick" else [R("simd"), R("serial32"), R("fiat64"), R("avx512")],
)


PROPS["C13"] = _std(
    "model_checking",
    "explicit-state BFS over batches built by append / duplicate / swap from a menu of honest and singly corrupted entries (key->other honest key, message bit, R->other honest R, R undecodable, S+l, S->other honest S): every state = verify_batch called twice, compared with the conjunction of the model's single verifications (and the real single verifier with the model), "
    "plus every slice-length triple for short batches; large batches at n in {64,94,95,96,250} (Straus/Pippenger switch at 2n+1 = 190, Pippenger window switches at 2n+1 = 500 and 800) with one corrupted entry at first/middle/last position. distinct_nontrivial = distinct batches.",
    "Explicit-state exploration of batch construction histories against the conjunction of RFC 8032 single verifications.",
    "DESIGN.md section 4, C13",
    "explicit-state BFS over batch histories against a reference model",
    lambda tier: [R("simd"), R("simd", dispatch="serial"), R("serial32", "rel-notables"), R("avx512"), R("fiat64")] if tier == "quick" else T([R("simd", deep=True), R("simd", dispatch="serial"), R("serial32"), R("fiat64"), R("avx512"), R("avx512", dispatch="avx2")]),
)

PROPS["C15"] = _std(
    "exploration",
    "every decoding / verifying entry point x its adversarial alphabet under catch_unwind, on the release and on the checked (overflow-checks + debug-assertions) profile: slice decoders on every length 0..=70, PKCS#8/SPKI documents with every byte mutated and every truncation, 32-byte decoders on the Edwards/Ristretto/Montgomery encoding alphabets, "
    "hash-to-group/scalar maps driven through an identity digest onto the algebraically exceptional preimages solved by the model, the bit-string ladder with empty/huge iterators, all verifiers on an adversarial (key, R, S, context-length) product incl. contexts of 256/257/1000 bytes, verify_batch on the corruption space. "
    "Oracle: no panic; malformed => None/Err; total constructors succeed. distinct_nontrivial = calls made.",
    "Exhaustive over structured adversarial alphabets for every untrusted-input entry point, on both build profiles.",
    "DESIGN.md section 4, C15",
    "exhaustive adversarial-alphabet enumeration under catch_unwind on release and checked builds",
    lambda tier: [R("simd"), R("simd", "chk"), R("simd", dispatch="serial"), R("serial32"), R("fiat64")] if tier == "quick" else
                 [R("simd"), R("simd", "chk"), R("simd", dispatch="serial"), R("serial32"), R("serial32", "chk"), R("serial64", "chk"), R("fiat64"), R("fiat64", "chk"), R("fiat32", "chk"), R("avx512", "chk"), R("simd", "rel-legacy")],
)

PROPS["C17"] = _std(
    "exploration",
    "Field/PrimeField methods on the scalar alphabet (sqrt vs Euler criterion incl. constructed residues and non-residues, invert, sqrt_ratio, from_repr / from_repr_vartime around l, to_repr, bits), advertised constants against their defining relations (the model carries and checks the factorisation of l-1 to decide primitivity of the generator), "
    "GroupEncoding of EdwardsPoint / SubgroupPoint / RistrettoPoint on the encoding alphabets, CofactorGroup on every a*B+T_j (into_subgroup <=> torsion-free, clear_cofactor = [8]P), SubgroupPoint's whole operator surface (every Add/Sub/Mul/Assign/Sum/select/ct_eq/zeroize impl, mixed with torsioned EdwardsPoints), Group::random with a scripted RNG. distinct_nontrivial = cases.",
    "Exhaustive over structured alphabets against Z/lZ and the Edwards/Ristretto models.",
    "DESIGN.md section 4, C17",
    "exhaustive alphabet enumeration against the reference model",
    lambda tier: [R("simd"), R("serial32"), R("fiat64")] if tier == "quick" else [R("simd"), R("simd", dispatch="serial"), R("serial32"), R("serial64"), R("fiat32"), R("fiat64"), R("avx512"), R("avx512", dispatch="avx2")],
)


# ---------------------------------------------------------------------------------------------
# cross-configuration comparison (C05, C11a)
# ---------------------------------------------------------------------------------------------
import json as _json, os as _os, subprocess as _sp

STREAMS = ["C02", "C03", "C04", "C06", "C07", "C08", "C09", "C12", "C16"]


def _locate_divergence(sub, tier, ra, rb, bins, scratch, tables_only):
    """Re-run two configurations with transcripts and return the first differing request."""
    outs = []
    for tag, r in (("a", ra), ("b", rb)):
        t = _os.path.join(scratch, "transcript_%s_%s.txt" % (sub, tag))
        o = _os.path.join(scratch, "transcript_%s_%s.json" % (sub, tag))
        cmd = [bins[(r["config"], r["variant"])], sub, "--tier", r.get("tier", tier), "--out", o, "--dispatch", r.get("dispatch", "auto"), "--transcript", t]
        _sp.run(cmd, stdout=_sp.PIPE, stderr=_sp.STDOUT)
        d = {}
        for line in open(t):
            k, _, v = line.rstrip("\n").partition("\t")
            if tables_only != k.startswith("T:"):
                continue
            d[k] = v
        outs.append(d)
    a, b = outs
    for k in sorted(set(a) | set(b)):
        if a.get(k) != b.get(k):
            return {"request": k, "reply_a": a.get(k), "reply_b": b.get(k)}
    return {"request": None}


def digest_compare(pid, tier, partials, scratch, bins):
    """Group the sub-runs by (stream, legacy flag); all digests in a group must be equal."""
    groups = {}
    for j in partials:
        r = j["run"]
        sub = r.get("prop", pid)
        if sub not in STREAMS:
            continue
        legacy = bool(j["config"].get("legacy"))
        groups.setdefault((sub, legacy), []).append(j)
    violations = []
    compared = 0
    requests = 0
    distinct = set()
    for (sub, legacy), js in sorted(groups.items()):
        ref = js[0]
        for kind in ("digest", "tdigest"):
            cand = js if kind == "digest" else [j for j in js if j["config"].get("tables")]
            if len(cand) < 2:
                continue
            ref = cand[0]
            for j in cand[1:]:
                compared += 1
                requests += j[kind + "_n"]
                distinct.add((sub, j[kind]))
                if j[kind] != ref[kind] or j[kind + "_n"] != ref[kind + "_n"]:
                    loc = _locate_divergence(sub, tier, ref["run"], j["run"], bins, scratch, kind == "tdigest")
                    violations.append({
                        "property": pid,
                        "key": "cross_config.%s.%s" % (sub, (loc.get("request") or "?").split("/")[0]),
                        "what": "configurations %s and %s answer differently on the %s request stream: %s" % (
                            _cfgname(ref["run"]), _cfgname(j["run"]), sub, _json.dumps(loc)[:600]),
                        "case": {"kind": "cross_config", "stream": sub, "a": ref["run"], "b": j["run"], "divergence": loc},
                        "config": j["run"],
                    })
    cov = {"digest_comparisons": compared, "requests_compared": requests,
           "groups": [{"stream": s, "legacy": l, "configurations": [_cfgname(j["run"]) for j in js],
                       "requests": js[0]["digest_n"], "digest": js[0]["digest"]} for (s, l), js in sorted(groups.items())]}
    return {"violations": violations, "coverage": cov, "evaluations": 0, "distinct_nontrivial": len(distinct)}


def _cfgname(r):
    return "%s/%s/%s" % (r["config"], r["variant"], r.get("dispatch", "auto"))


def _c05_runs(tier):
    if tier == "quick":
        cfgs = [R("simd"), R("simd", dispatch="serial"), R("serial32"), R("serial32", "rel-notables"), R("avx512"), R("fiat64"), R("fiat32"), R("simd", "rel-nozeroize")]
        streams = ["C02", "C04", "C07", "C08", "C09", "C12", "C16"]
    else:
        cfgs = []
        for v in ("rel", "rel-notables"):
            cfgs += [R("simd", v), R("simd", v, dispatch="serial"), R("serial64", v), R("serial32", v), R("fiat64", v), R("fiat32", v),
                     R("avx512", v), R("avx512", v, dispatch="avx2"), R("avx512", v, dispatch="serial")]
        cfgs += [R("simd", "rel-legacy"), R("serial32", "rel-legacy"), R("simd", "rel-nozeroize"), R("serial32", "rel-nozeroize"), R("avx512", "rel-nozeroize")]
        streams = STREAMS
    out = []
    for c in cfgs:
        for s in streams:
            if c["variant"] == "rel-nozeroize" and s not in ("C02", "C03", "C04", "C06", "C07", "C12"):
                continue  # that build has no ed25519-dalek
            d = dict(c)
            d["prop"] = s
            d["tier"] = "quick"
            d["threads"] = 4
            out.append(d)
    return out


PROPS["C05"] = _std(
    "exploration",
    "the union of the public-API request streams of the C02/C03/C04/C06/C07/C08/C09/C16 explorers (every request is keyed by operation and arguments; replies are result bytes and accept/reject bits) is replayed on every configuration: 6 backend builds, run-time dispatch forced to each implementation a build contains, precomputed tables on/off, legacy on/off, the crates' `zeroize` feature on/off; "
    "order-independent digests of (request, reply) pairs are compared, and a mismatch is bisected to the single request by transcript diff. Each stream is also checked against the reference model on every configuration, so an agreeing-but-wrong answer is a violation too. distinct_nontrivial = distinct (stream, digest) pairs seen (1 per stream when all configurations agree).",
    "Differential exploration across all buildable configurations on structured request streams; forced dispatch proves which implementation executed.",
    "DESIGN.md section 4, C05",
    "exhaustive replay of structured request streams on every configuration with digest comparison and transcript bisection",
    _c05_runs,
    post=digest_compare,
    parallel=4,
)


def _c11_runs(tier):
    if tier == "quick":
        cfgs = ["simd", "serial32", "avx512"]
        streams = ["C02", "C03", "C04", "C07", "C08", "C09"]
        kernels = ["C01"]
    else:
        cfgs = ALL_BACKENDS
        streams = ["C02", "C03", "C04", "C06", "C07", "C08", "C09", "C13", "C16", "C17"]
        kernels = ["C01"]
    out = []
    for c in cfgs:
        for s in (streams if not (tier == "quick" and c == "avx512") else ["C03", "C04"]):
            for v in ("chk", "rel"):
                out.append(R(c, v, prop=s, tier="quick", threads=4))
        if c in ("simd", "avx512"):
            for s in streams[:4]:
                out.append(R(c, "chk", dispatch="serial", prop=s, tier="quick", threads=4))
        if c == "avx512":
            for s in streams[:4]:
                out.append(R(c, "chk", dispatch="avx2", prop=s, tier="quick", threads=4))
        for k in kernels:
            out.append(R(c, "chk", prop=k, tier=tier, threads=4))
        if c in ("simd", "avx512"):
            # layer (c): saturation tapes over the AVX2 formulas (in an avx512 build: forced AVX2 dispatch)
            out.append(R(c, "chk", prop="C11c", tier=tier, threads=4, dispatch="auto" if c == "simd" else "avx2"))
        if tier != "quick":
            out.append(R(c, "chk-notables", prop="C04", tier="quick", threads=4))
    return out


PROPS["C11"] = _std(
    "model_checking",
    "(a) the request streams of the functional explorers (field/scalar/point machines, scalar-multiplication alphabets, X25519, signing/verification) are replayed on builds with overflow checks and debug assertions enabled: any panic is a violation, and order-independent reply digests must equal those of the release build of the same configuration; "
    "(b) the field register machine and the complete limb-lattice products (all limbs simultaneously at 0 / mask / documented headroom bound) run on the checked build, so every serial kernel is entered at its contract boundary with overflow checks on, and the 4-lane vector kernels are entered at their documented lane bounds with the value compared against the model (a wrapped lane changes the value). "
    "(c) saturation tapes (hooks H6+H7): every AVX2 point formula from every lane pattern of saturated inputs under every answer sequence of its reducing kernels (each answer = per lane zero or the documented post-condition maximum), and whole scalar-multiplication algorithms under all-MAX / all-MIN / every single deviation; entry monitors check the documented pre-conditions, outputs the type invariants. "
    "distinct_nontrivial = distinct machine states + distinct stream digests + tape runs.",
    "Explicit-state exploration and lattice enumeration on checked builds, differential against release builds, per backend and forced dispatch.",
    "DESIGN.md section 4, C11",
    "explicit-state BFS and limb-lattice enumeration on overflow-checked builds + checked/release digest comparison",
    _c11_runs,
    post=digest_compare,
    parallel=4,
    level_note="Layer (c) (saturation tapes) covers the AVX2 vector formulas; serial and IFMA code is covered by (a)+(b) and the entry monitors on real values. Decides the property for the enumerated lattice, streams and tapes only.",
)


# ---------------------------------------------------------------------------------------------
# C10: trace observer
# ---------------------------------------------------------------------------------------------
import ct as _ct


def _c10_setup():
    for cfg, tables in [("simd", True), ("simd", False), ("serial64", True), ("serial32", True), ("fiat64", True), ("fiat32", True), ("avx512", True), ("avx512", False)]:
        _ct.build(cfg, tables, lambda *a: None)


PROPS["C10"] = {
    "level": "exploration",
    "rule": "see coverage.rule",
    "assumptions": [
        "valgrind's lackey tool reports every executed guest instruction address and every load/store address and size of the unmodified release binary",
        "the property is decided for the artefact produced by the pinned compiler at the release profile, for the secrets of the alphabet; micro-architectural timing is not observed (nor claimed by the property)",
        "valgrind cannot execute AVX-512: the IFMA backend's compiled code is traced with a ptrace single-stepper that records instruction pointers only (no data addresses)",
        "VERIF_SEED is recorded but unused: the secret alphabet is a deterministic enumeration",
    ],
    "custom": _ct.run,
    "setup": _c10_setup,
    "level_text": "Exhaustive over a structured secret alphabet (digit values, carries, extreme scalars, single bits) for every operation not documented as variable-time, on the compiled release artefact of each backend; equality of full (instruction, data address) traces; variable-time entry points as positive controls in every run.",
    "design_ref": "DESIGN.md section 4, C10",
    "level_note": "Observes architectural control flow and data addresses of one compiler output (IFMA: control flow only); secrets outside the alphabet are not covered.",
    "technique": "exhaustive secret-alphabet enumeration with full instruction/address trace comparison (valgrind lackey; ptrace single-stepping for AVX-512) on release binaries",
    "engine": "ct (valgrind lackey + trace cutter)",
}
ENGINES.append({"name": "ct (valgrind lackey + trace cutter)", "path": "/verif/ct", "serves_properties": ["C10"],
                "kind_free_text": "release trace subject built without hooks, run under valgrind --tool=lackey --trace-mem=yes; ct-cut hashes the marker-delimited (instruction, address) trace"})


ENGINES.append({"name": "dalek-fx", "path": "/verif/fx", "serves_properties": ["C14"],
                "kind_free_text": "small binary built once per subset of the cargo features that gate the secret-holding types (zeroize on); create/use/clone/drop lifecycles under the same allocator-level observer as dalek-mc, with a positive control per build"})


def _fx_post(pid, tier, partials, scratch, bins):
    import fx
    return fx.post(pid, tier, partials, scratch, bins)


PROPS["C14"] = _std(
    "model_checking",
    "(i) for each secret-holding type (SigningKey, ExpandedSecretKey, EphemeralSecret, ReusableSecret, StaticSecret, SharedSecret) every operation sequence of bounded length over {create in a Box, clone, use by reference, explicit zeroize, drop} on up to 3 registers, followed by dropping everything, executed with a heap observer (global allocator that copies every block at dealloc): no 8-byte window of any secret string may occur in any freed block; positive control: an unwiped boxed array must be seen; "
    "(ii) explicit zeroisation of scalars, points, compressed forms; (iii) constant-time multiscalar_mul and Scalar::batch_invert for every n of the list with seven secret vectors: freed blocks identical across secrets and free of digit strings / scalar bytes / Montgomery partial products. states = lifecycles (histories), transitions = operations executed. In addition the secret-holding types are taken through create/use/clone/drop on a small binary built once per subset of the cargo features that gate them (coverage.feature_lattice).",
    "Exhaustive enumeration of bounded create/clone/use/zeroize/drop histories with an allocator-level observer; differential freed-heap comparison across secrets under every dispatch.",
    "DESIGN.md section 4, C14",
    "exhaustive enumeration of object lifecycles under a heap observer + differential freed-block comparison + enumeration of the cargo-feature lattice of the secret-holding types",
    lambda tier: [R("simd"), R("simd", dispatch="serial"), R("serial32"), R("avx512"), R("fiat64")] if tier == "quick" else [R("simd"), R("simd", dispatch="serial"), R("serial32"), R("fiat64"), R("fiat32"), R("avx512"), R("avx512", dispatch="avx2"), R("avx512", dispatch="serial")],
    post=_fx_post,
)
