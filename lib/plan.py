"""Which configurations each property's check builds and runs, and the evidence metadata."""

CONFIGS = {
    "simd":     {"toolchain": "stable",  "rustflags": ""},
    "serial64": {"toolchain": "stable",  "rustflags": '--cfg curve25519_dalek_backend="serial" --cfg curve25519_dalek_bits="64"'},
    "serial32": {"toolchain": "stable",  "rustflags": '--cfg curve25519_dalek_backend="serial" --cfg curve25519_dalek_bits="32"'},
    "fiat64":   {"toolchain": "stable",  "rustflags": '--cfg curve25519_dalek_backend="fiat" --cfg curve25519_dalek_bits="64"'},
    "fiat32":   {"toolchain": "stable",  "rustflags": '--cfg curve25519_dalek_backend="fiat" --cfg curve25519_dalek_bits="32"'},
    "avx512":   {"toolchain": "nightly", "rustflags": '--cfg curve25519_dalek_backend="unstable_avx512"'},
}

VARIANTS = {
    "rel":          {"profile": "release", "features": ["tables"]},
    "rel-notables": {"profile": "release", "features": []},
    "chk":          {"profile": "checked", "features": ["tables"]},
    "chk-notables": {"profile": "checked", "features": []},
    "rel-legacy":   {"profile": "release", "features": ["tables", "legacy"]},
}

ALL_BACKENDS = ["simd", "serial64", "serial32", "fiat64", "fiat32", "avx512"]


def R(config, variant="rel", dispatch="auto", **kw):
    d = {"config": config, "variant": variant, "dispatch": dispatch}
    d.update(kw)
    return d


COMMON_ASSUMPTIONS = [
    "the reference model (hand-written integer arithmetic mod p and mod l, affine Edwards law, RFC 7748/8032/9496 transcriptions) is correct; it is self-tested against published vectors at the start of every run",
    "the cfg(curve25519_dalek_verif) hooks forward to the crate-private functions unchanged",
    "verdicts are relative to the enumerated alphabet and bounds listed under coverage.configurations[].bounds",
]

PROPS = {}
NOT_APPLICABLE = {}
ENGINES = [
    {"name": "dalek-mc", "path": "/verif/mc", "serves_properties": [],
     "kind_free_text": "Rust explorer linked against /repo's crates (one binary per backend configuration): stateright explicit-state BFS over operation histories and exhaustive enumeration of structured alphabets, each transition executing the real code in lock-step with a hand-written reference model"},
]

PROPS["C01"] = {
    "level": "model_checking",
    "rule": "explicit-state BFS (stateright) of a register machine over the real FieldElement started from raw-limb lattice corners, "
            "plus complete depth-1 products of the limb lattice for every unary/binary op, plus decoding/sqrt-ratio/batch-invert alphabets; "
            "every transition executes the real code and compares as_bytes/predicates with integer arithmetic mod p. "
            "A state is non-trivial (counted in distinct_nontrivial) if it is a distinct (depth, limbs) state of the machine.",
    "assumptions": COMMON_ASSUMPTIONS,
    "runs": lambda tier: [R("simd"), R("serial32")] if tier == "quick" else [R(b) for b in ALL_BACKENDS],
    "level_text": "Explicit-state exploration of operation chains on the real field types from raw-limb lattice corners (all limbs at 0 / mask / headroom bound), every step compared with integer arithmetic mod p; exhaustive within the stated lattice, depth and pool, for every backend's representation.",
    "design_ref": "DESIGN.md section 4, C01",
    "level_note": "Decides the property for the enumerated limb lattice and depth only; trusted: reference model (self-tested), hooks forward unchanged, stateright search engine.",
    "technique": "explicit-state BFS (stateright) over real-code operation chains + exhaustive lattice enumeration against a reference model",
}
