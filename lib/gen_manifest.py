#!/usr/bin/env python3
"""Regenerates MANIFEST.json from lib/plan.py (single source of truth for what is claimed)."""
import json, os, sys, subprocess
ROOT = os.path.dirname(os.path.dirname(os.path.abspath(__file__)))
sys.path.insert(0, os.path.join(ROOT, "lib"))
import plan

props = [json.loads(l) for l in open(os.path.join(ROOT, "properties.jsonl"))]
ids = [p["id"] for p in props]
hook_commits = subprocess.run(["git", "-C", "/repo", "log", "--format=%H %s", "--grep=^verif hook"], stdout=subprocess.PIPE, text=True).stdout.strip().split("\n")
hook_commits = [l.split()[0] for l in hook_commits if l]
checks = []
for pid in ids:
    if pid not in plan.PROPS:
        continue
    s = plan.PROPS[pid]
    checks.append({
        "property_id": pid,
        "quick_cmd": "./check %s --tier quick" % pid,
        "thorough_cmd": "./check %s --tier thorough" % pid,
        "evidence_file": "/verif/evidence/%s.json" % pid,
        "replay_cmd_template": "./check %s --replay {path}" % pid,
        "engine": s.get("engine", "dalek-mc"),
        "level_claimed": {"category": s["level"], "text": s["level_text"], "design_ref": s["design_ref"]},
        "level_note": s["level_note"],
        "technique": s["technique"],
    })
na = [{"property_id": pid, "reason": plan.NOT_APPLICABLE.get(pid, "check not built yet in this round; see DESIGN.md section 4 for the planned exploration")}
      for pid in ids if pid not in plan.PROPS]
m = {
    "version": 1,
    "setup_cmd": "./check --setup",
    "hooks": {
        "guard": "--cfg curve25519_dalek_verif",
        "enable": "RUSTFLAGS='--cfg curve25519_dalek_verif [backend cfgs]' cargo build in /verif/mc, which path-depends on /repo's crates (see ./check and lib/plan.py)",
        "baseline_off_cmd": "cd /repo && cargo nextest run --workspace --no-fail-fast --tool-config-file pb:/w/lib/nextest.toml --profile pb --test-threads 8 --offline",
        "source_commits": hook_commits,
        "add_only": True,
    },
    "engines": plan.ENGINES,
    "checks": checks,
    "not_applicable": na,
    "notes": "Model checking of a sequential library: exhaustive bounded exploration of operation sequences / structured input alphabets on the real code in lock-step with a reference model. See DESIGN.md.",
}
json.dump(m, open(os.path.join(ROOT, "MANIFEST.json"), "w"), indent=1)
print("MANIFEST.json: %d checks, %d not_applicable" % (len(checks), len(na)))
