//! A small layered, parallel, deterministic explicit-state breadth-first explorer.
//!
//! It drives any `stateright::Model` (so the same machine can also be handed to stateright's
//! own checker, which the thorough tier does as a cross-check of the state counts), but
//! expands each BFS layer with rayon: the transition function of our machines executes real
//! cryptographic code and a big-integer reference model, so transitions are expensive and the
//! layers are wide — the opposite of what stateright's work-sharing is tuned for (measured:
//! 1x-5x speed-up on 16 cores there, ~14x here).
//!
//! Determinism: successors are generated in (parent index, action index) order and
//! de-duplicated sequentially in that order, so state counts, layer sizes and the reported
//! counterexample do not depend on thread timing.

use rayon::prelude::*;
use stateright::Model;
use std::collections::HashSet;
use std::fmt::Debug;
use std::hash::Hash;

fn fingerprint<S: Hash>(s: &S) -> u128 {
    use std::hash::Hasher;
    let mut h1 = std::collections::hash_map::DefaultHasher::new();
    s.hash(&mut h1);
    let a = h1.finish();
    let mut h2 = std::collections::hash_map::DefaultHasher::new();
    0x9e3779b97f4a7c15u64.hash(&mut h2);
    s.hash(&mut h2);
    a.hash(&mut h2);
    ((a as u128) << 64) | h2.finish() as u128
}

pub struct Outcome<S, A> {
    pub unique_states: u64,
    pub transitions: u64,
    pub layers: Vec<u64>,
    /// (actions from an initial state, final state, message) for up to `max_report` violating
    /// states of the first layer that contains one
    pub violations: Vec<(usize, Vec<A>, S, String)>,
    pub completed_depth: usize,
    /// one actual explored history: the action path to the last state of the deepest layer
    pub sample: Option<(usize, Vec<A>, S)>,
}

struct Node<S, A> {
    state: S,
    parent: usize, // index into the previous layer (usize::MAX for initial states)
    action: Option<A>,
}

pub fn explore<M, F>(m: &M, max_depth: usize, bad: F, max_report: usize) -> Outcome<M::State, M::Action>
where
    M: Model + Sync,
    M::State: Clone + Hash + Eq + Send + Sync + Debug,
    M::Action: Clone + Send + Sync + Debug,
    F: Fn(&M::State) -> Option<String> + Sync,
{
    let mut seen: HashSet<M::State> = HashSet::new();
    let mut layers: Vec<Vec<Node<M::State, M::Action>>> = Vec::new();
    let mut first: Vec<Node<M::State, M::Action>> = Vec::new();
    for s in m.init_states() {
        if seen.insert(s.clone()) {
            first.push(Node { state: s, parent: usize::MAX, action: None });
        }
    }
    layers.push(first);
    let mut transitions = 0u64;
    let mut sizes = vec![layers[0].len() as u64];
    let mut violations = Vec::new();
    let mut completed = 0usize;
    let mut final_extra = 0u64;
    let mut final_sample: Option<(usize, Vec<M::Action>, M::State)> = None;
    loop {
        let cur = layers.last().unwrap();
        // violations in this layer?
        let bads: Vec<(usize, String)> = cur
            .par_iter()
            .enumerate()
            .filter_map(|(i, n)| bad(&n.state).map(|e| (i, e)))
            .collect();
        if !bads.is_empty() {
            let depth = layers.len() - 1;
            for (i, msg) in bads.into_iter().take(max_report) {
                // reconstruct the path
                let mut acts = Vec::new();
                let mut idx = i;
                let mut init_index = 0usize;
                for d in (0..=depth).rev() {
                    let n = &layers[d][idx];
                    if let Some(a) = &n.action {
                        acts.push(a.clone());
                    }
                    if d == 0 {
                        init_index = idx;
                    }
                    idx = n.parent;
                }
                acts.reverse();
                violations.push((init_index, acts, layers[depth][i].state.clone(), msg));
            }
            break;
        }
        if layers.len() - 1 >= max_depth {
            completed = max_depth;
            break;
        }
        if layers.len() == max_depth {
            // Final layer: every successor is generated and judged, but not stored: nothing is expanded from it,
            // so keeping the states (the bulk of the memory of a run) buys nothing.  Distinct states are counted
            // through 128-bit fingerprints; a fingerprint collision could only make the *count* one too small,
            // never skip a judgement, since `bad` is evaluated on every generated successor.
            let depth = layers.len() - 1;
            let chunk = 2048usize;
            let mut fps: HashSet<u128> = HashSet::new();
            let mut found: Vec<(usize, usize, M::Action, M::State, String)> = Vec::new();
            let mut last_sample: Option<(usize, M::Action, M::State)> = None;
            let mut start = 0usize;
            while start < cur.len() {
                let end = (start + chunk).min(cur.len());
                let parts: Vec<(Vec<u128>, u64, Vec<(usize, usize, M::Action, M::State, String)>, Option<(usize, M::Action, M::State)>)> = cur[start..end]
                    .par_iter()
                    .enumerate()
                    .map(|(off, n)| {
                        let pi = start + off;
                        let mut acts = Vec::new();
                        m.actions(&n.state, &mut acts);
                        let mut f = Vec::with_capacity(acts.len());
                        let mut t = 0u64;
                        let mut b = Vec::new();
                        let mut last = None;
                        for (ai, a) in acts.into_iter().enumerate() {
                            if let Some(s) = m.next_state(&n.state, a.clone()) {
                                t += 1;
                                f.push(fingerprint(&s));
                                if let Some(e) = bad(&s) {
                                    b.push((pi, ai, a.clone(), s.clone(), e));
                                }
                                if pi + 1 == cur.len() {
                                    last = Some((pi, a, s));
                                }
                            }
                        }
                        (f, t, b, last)
                    })
                    .collect();
                for (f, t, b, last) in parts {
                    transitions += t;
                    for x in f {
                        fps.insert(x);
                    }
                    found.extend(b);
                    if last.is_some() {
                        last_sample = last;
                    }
                }
                start = end;
            }
            // states of the final layer that were already reached earlier are not new
            let mut new_states = 0u64;
            {
                let earlier: HashSet<u128> = seen.iter().map(fingerprint).collect();
                for x in &fps {
                    if !earlier.contains(x) {
                        new_states += 1;
                    }
                }
            }
            sizes.push(new_states);
            final_extra = new_states;
            found.sort_by_key(|x| (x.0, x.1));
            let path_to = |pi: usize| -> (usize, Vec<M::Action>) {
                let mut acts = Vec::new();
                let mut idx = pi;
                let mut init_index = 0usize;
                for d in (0..=depth).rev() {
                    let n = &layers[d][idx];
                    if let Some(a) = &n.action {
                        acts.push(a.clone());
                    }
                    if d == 0 {
                        init_index = idx;
                    }
                    idx = n.parent;
                }
                acts.reverse();
                (init_index, acts)
            };
            for (pi, _, a, s, msg) in found.into_iter().take(max_report) {
                let (init_index, mut acts) = path_to(pi);
                acts.push(a);
                violations.push((init_index, acts, s, msg));
            }
            if let Some((pi, a, s)) = last_sample {
                let (init_index, mut acts) = path_to(pi);
                acts.push(a);
                final_sample = Some((init_index, acts, s));
            }
            completed = if violations.is_empty() { max_depth } else { max_depth - 1 };
            break;
        }
        // expand
        let succ: Vec<Vec<(M::State, M::Action)>> = cur
            .par_iter()
            .map(|n| {
                let mut acts = Vec::new();
                m.actions(&n.state, &mut acts);
                acts.into_iter()
                    .filter_map(|a| m.next_state(&n.state, a.clone()).map(|s| (s, a)))
                    .collect()
            })
            .collect();
        let mut next = Vec::new();
        for (pi, v) in succ.into_iter().enumerate() {
            for (s, a) in v {
                transitions += 1;
                if seen.insert(s.clone()) {
                    next.push(Node { state: s, parent: pi, action: Some(a) });
                }
            }
        }
        completed = layers.len() - 1;
        if next.is_empty() {
            completed = layers.len() - 1;
            sizes.push(0);
            break;
        }
        sizes.push(next.len() as u64);
        layers.push(next);
    }
    // a sample history: the last node of the deepest non-empty layer
    let sample = if final_sample.is_some() {
        final_sample
    } else {
        let depth = layers.len() - 1;
        if layers[depth].is_empty() {
            None
        } else {
            let i = layers[depth].len() - 1;
            let mut acts = Vec::new();
            let mut idx = i;
            let mut init_index = 0usize;
            for d in (0..=depth).rev() {
                let n = &layers[d][idx];
                if let Some(a) = &n.action {
                    acts.push(a.clone());
                }
                if d == 0 {
                    init_index = idx;
                }
                idx = n.parent;
            }
            acts.reverse();
            Some((init_index, acts, layers[depth][i].state.clone()))
        }
    };
    Outcome {
        sample,
        unique_states: seen.len() as u64 + final_extra,
        transitions,
        layers: sizes,
        violations,
        completed_depth: completed,
    }
}

/// Record an exploration in the run context.
pub fn finish<S: Debug, A: Debug>(ctx: &crate::ev::Ctx, key: &str, o: &Outcome<S, A>, declared_depth: usize) {
    use std::sync::atomic::Ordering;
    ctx.states.fetch_add(o.unique_states, Ordering::Relaxed);
    ctx.nontriv(o.unique_states);
    ctx.count(&format!("{}_generated_states", key), o.transitions);
    ctx.bound(&format!("{}_layer_sizes", key), serde_json::json!(o.layers));
    ctx.bound(&format!("{}_completed_depth", key), serde_json::json!(o.completed_depth));
    for (init, acts, last, msg) in &o.violations {
        let acts: Vec<String> = acts.iter().map(|a| format!("{:?}", a)).collect();
        let st = format!("{:?}", last);
        ctx.violation(
            key,
            msg,
            serde_json::json!({"kind": "machine", "init_index": init, "actions": acts, "final_state": if st.len() > 1500 { st[..1500].to_string() } else { st }}),
        );
    }
    if let Some((init, acts, last)) = &o.sample {
        let st = format!("{:?}", last);
        ctx.sample_tag(
            &format!("{}_history", key),
            serde_json::json!({"init_index": init, "actions": acts.iter().map(|a| format!("{:?}", a)).collect::<Vec<_>>(), "reached_state": if st.len() > 600 { st[..600].to_string() } else { st }}),
        );
    }
    if o.violations.is_empty() && o.completed_depth < declared_depth && *o.layers.last().unwrap_or(&1) != 0 {
        ctx.note(&format!("{}: completed depth {} of declared {}", key, o.completed_depth, declared_depth));
    }
}
