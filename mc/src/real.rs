//! Adapters between model values and the real crate's types, plus the scripted seams
//! (RNG, identity digest).

use crate::model::ed::Pt;
use crate::model::nat::U;
use curve25519_dalek::constants::{ED25519_BASEPOINT_POINT, EIGHT_TORSION};
use curve25519_dalek::edwards::{CompressedEdwardsY, EdwardsPoint};
use curve25519_dalek::scalar::Scalar;
use curve25519_dalek::traits::Identity;

/// The real scalar for a model integer below l.
pub fn scalar(x: &U) -> Scalar {
    Option::<Scalar>::from(Scalar::from_canonical_bytes(x.to_le32())).expect("model value below l must decode canonically")
}

/// The real scalar for any integer below 2^256, by reduction.
pub fn scalar_mod(x: &U) -> Scalar {
    Scalar::from_bytes_mod_order(x.to_le32())
}

pub fn scalar_int(s: &Scalar) -> U {
    U::from_le(s.as_bytes())
}

/// Real point from a model affine point (through the public decoder).
pub fn point(p: &Pt) -> EdwardsPoint {
    CompressedEdwardsY(p.compress()).decompress().expect("model point must decompress")
}

/// a*B + T_j built with real public operations that are themselves under test elsewhere
/// (used only to *construct inputs*; the expected values always come from the model).
pub fn point_aj(a: &U, j: u8) -> EdwardsPoint {
    point(&crate::model::ed::from_aj(a, j))
}

pub fn real_torsion(j: usize) -> EdwardsPoint {
    EIGHT_TORSION[j % 8]
}

pub fn real_basepoint() -> EdwardsPoint {
    ED25519_BASEPOINT_POINT
}

pub fn real_identity() -> EdwardsPoint {
    EdwardsPoint::identity()
}

// ------------------------------------------------------------------------------------------
// scripted RNG
// ------------------------------------------------------------------------------------------

/// Returns the scripted bytes in order, then zeros; counts how many bytes were requested.
pub struct ScriptRng {
    pub data: Vec<u8>,
    pub pos: usize,
}

impl ScriptRng {
    pub fn new(data: &[u8]) -> ScriptRng {
        ScriptRng { data: data.to_vec(), pos: 0 }
    }
}

impl rand_core::RngCore for ScriptRng {
    fn next_u32(&mut self) -> u32 {
        let mut b = [0u8; 4];
        self.fill_bytes(&mut b);
        u32::from_le_bytes(b)
    }
    fn next_u64(&mut self) -> u64 {
        let mut b = [0u8; 8];
        self.fill_bytes(&mut b);
        u64::from_le_bytes(b)
    }
    fn fill_bytes(&mut self, dest: &mut [u8]) {
        for d in dest.iter_mut() {
            *d = if self.pos < self.data.len() { self.data[self.pos] } else { 0 };
            self.pos += 1;
        }
    }
    fn try_fill_bytes(&mut self, dest: &mut [u8]) -> Result<(), rand_core::Error> {
        self.fill_bytes(dest);
        Ok(())
    }
}
impl rand_core::CryptoRng for ScriptRng {}

// ------------------------------------------------------------------------------------------
// identity digest: 64-byte output = the first 64 bytes fed in (zero padded)
// ------------------------------------------------------------------------------------------

#[derive(Clone, Default)]
pub struct IdDigest {
    buf: Vec<u8>,
}

impl digest::HashMarker for IdDigest {}
impl digest::OutputSizeUser for IdDigest {
    type OutputSize = digest::consts::U64;
}
impl digest::Update for IdDigest {
    fn update(&mut self, data: &[u8]) {
        self.buf.extend_from_slice(data);
    }
}
impl digest::FixedOutput for IdDigest {
    fn finalize_into(self, out: &mut digest::Output<Self>) {
        for i in 0..64 {
            out[i] = if i < self.buf.len() { self.buf[i] } else { 0 };
        }
    }
}
impl digest::Reset for IdDigest {
    fn reset(&mut self) {
        self.buf.clear();
    }
}
impl digest::FixedOutputReset for IdDigest {
    fn finalize_into_reset(&mut self, out: &mut digest::Output<Self>) {
        for i in 0..64 {
            out[i] = if i < self.buf.len() { self.buf[i] } else { 0 };
        }
        self.buf.clear();
    }
}
