//! Run context: counters, samples, violations, cross-configuration digests, panic capture.

use serde_json::{json, Value};
use sha2::{Digest, Sha512};
use std::cell::Cell;
use std::collections::BTreeMap;
use std::io::Write;
use std::panic::{catch_unwind, AssertUnwindSafe};
use std::sync::atomic::{AtomicU64, Ordering};
use std::sync::Mutex;

pub const MAX_STORED_VIOLATIONS: usize = 40;
pub const MAX_SAMPLES: usize = 12;

#[derive(Clone, Copy, PartialEq, Eq, Debug)]
pub enum Tier {
    Quick,
    Thorough,
}

pub struct Ctx {
    pub prop: String,
    pub tier: Tier,
    pub dispatch: String,
    /// one extra level of depth for the history machines (thorough tier, one configuration)
    pub deep: bool,
    pub counters: Mutex<BTreeMap<String, u64>>,
    pub samples: Mutex<Vec<Value>>,
    pub violations: Mutex<Vec<Value>>,
    pub n_violations: AtomicU64,
    pub evaluations: AtomicU64,
    pub states: AtomicU64,
    pub transitions: AtomicU64,
    /// distinct non-trivial cases (the check says what counts)
    pub nontrivial: AtomicU64,
    /// order-independent digest of (key, reply) pairs for cross-configuration comparison
    pub digest_sum: AtomicU64,
    pub digest_n: AtomicU64,
    /// the same for operations that only exist with the precomputed-tables feature (keys "T:...")
    pub tdigest_sum: AtomicU64,
    pub tdigest_n: AtomicU64,
    pub transcript: Option<Mutex<std::io::BufWriter<std::fs::File>>>,
    /// hashes of the distinct cases driven (for `distinct_nontrivial` of the enumeration explorers)
    pub distinct: Mutex<std::collections::HashSet<u64>>,
    pub notes: Mutex<Vec<String>>,
    pub bounds: Mutex<BTreeMap<String, Value>>,
    pub exhaustive: Mutex<Option<bool>>,
}

impl Ctx {
    pub fn new(prop: &str, tier: Tier, dispatch: &str, transcript: Option<&str>) -> Ctx {
        Ctx {
            prop: prop.to_string(),
            tier,
            dispatch: dispatch.to_string(),
            deep: false,
            counters: Mutex::new(BTreeMap::new()),
            samples: Mutex::new(Vec::new()),
            violations: Mutex::new(Vec::new()),
            n_violations: AtomicU64::new(0),
            evaluations: AtomicU64::new(0),
            states: AtomicU64::new(0),
            transitions: AtomicU64::new(0),
            nontrivial: AtomicU64::new(0),
            digest_sum: AtomicU64::new(0),
            digest_n: AtomicU64::new(0),
            tdigest_sum: AtomicU64::new(0),
            tdigest_n: AtomicU64::new(0),
            transcript: transcript.map(|p| {
                Mutex::new(std::io::BufWriter::new(
                    std::fs::File::create(p).expect("transcript file"),
                ))
            }),
            distinct: Mutex::new(std::collections::HashSet::new()),
            notes: Mutex::new(Vec::new()),
            bounds: Mutex::new(BTreeMap::new()),
            exhaustive: Mutex::new(None),
        }
    }
    pub fn quick(&self) -> bool {
        self.tier == Tier::Quick
    }
    pub fn count(&self, name: &str, n: u64) {
        *self.counters.lock().unwrap().entry(name.to_string()).or_insert(0) += n;
    }
    pub fn count_max(&self, name: &str, v: u64) {
        let mut c = self.counters.lock().unwrap();
        let e = c.entry(name.to_string()).or_insert(0);
        if v > *e {
            *e = v;
        }
    }
    pub fn eval(&self, n: u64) {
        self.evaluations.fetch_add(n, Ordering::Relaxed);
    }
    pub fn nontriv(&self, n: u64) {
        self.nontrivial.fetch_add(n, Ordering::Relaxed);
    }
    /// Register one driven case by a key that identifies it; `distinct_nontrivial` counts the
    /// distinct keys.
    pub fn case(&self, key: &str) {
        set_current_case(key);
        let mut h = Sha512::new();
        h.update(key.as_bytes());
        let d = h.finalize();
        let mut w = [0u8; 8];
        w.copy_from_slice(&d[..8]);
        self.distinct.lock().unwrap().insert(u64::from_le_bytes(w));
    }
    pub fn bound(&self, name: &str, v: Value) {
        self.bounds.lock().unwrap().insert(name.to_string(), v);
    }
    pub fn exhaustive_note(&self, s: &str) {
        self.notes.lock().unwrap().push(format!("enumerated completely: {}", s));
    }
    pub fn note(&self, s: &str) {
        self.notes.lock().unwrap().push(s.to_string());
    }
    pub fn sample(&self, v: Value) {
        let mut s = self.samples.lock().unwrap();
        if s.len() < MAX_SAMPLES {
            s.push(v);
        }
    }
    /// Sample with a tag: keeps at most one sample per tag.
    pub fn sample_tag(&self, tag: &str, v: Value) {
        let mut s = self.samples.lock().unwrap();
        if s.len() < 3 * MAX_SAMPLES && !s.iter().any(|x| x.get("tag").and_then(|t| t.as_str()) == Some(tag)) {
            let mut v = v;
            if let Some(o) = v.as_object_mut() {
                o.insert("tag".into(), json!(tag));
                s.push(v);
            } else {
                s.push(json!({"tag": tag, "case": v}));
            }
        }
    }
    /// Record a violation.  `key` identifies the failing case for known-findings matching,
    /// `case` is the replayable description.
    pub fn violation(&self, key: &str, what: &str, case: Value) {
        let n = self.n_violations.fetch_add(1, Ordering::Relaxed);
        if (n as usize) < MAX_STORED_VIOLATIONS {
            self.violations.lock().unwrap().push(json!({
                "property": self.prop,
                "key": key,
                "what": what,
                "case": case,
            }));
        }
    }
    /// Feed one (key, reply) pair of the public-API request stream into the
    /// configuration-independent digest.
    pub fn record(&self, key: &str, reply: &[u8]) {
        let mut h = Sha512::new();
        h.update((key.len() as u64).to_le_bytes());
        h.update(key.as_bytes());
        h.update(reply);
        let d = h.finalize();
        let mut w = [0u8; 8];
        w.copy_from_slice(&d[..8]);
        self.evaluations.fetch_add(1, Ordering::Relaxed);
        if key.starts_with("T:") {
            self.tdigest_sum.fetch_add(u64::from_le_bytes(w), Ordering::Relaxed);
            self.tdigest_n.fetch_add(1, Ordering::Relaxed);
        } else {
            self.digest_sum.fetch_add(u64::from_le_bytes(w), Ordering::Relaxed);
            self.digest_n.fetch_add(1, Ordering::Relaxed);
        }
        self.distinct.lock().unwrap().insert(u64::from_le_bytes(w));
        if let Some(t) = &self.transcript {
            let mut t = t.lock().unwrap();
            let _ = writeln!(t, "{}\t{}", key, crate::model::nat::hex(reply));
        }
    }
    pub fn to_json(&self, cfg: Value, wall_s: f64) -> Value {
        if let Some(t) = &self.transcript {
            let _ = t.lock().unwrap().flush();
        }
        json!({
            "property": self.prop,
            "tier": if self.quick() { "quick" } else { "thorough" },
            "config": cfg,
            "dispatch": self.dispatch,
            "evaluations": self.evaluations.load(Ordering::Relaxed),
            "states": self.states.load(Ordering::Relaxed),
            "transitions": self.transitions.load(Ordering::Relaxed),
            "distinct_nontrivial": self.nontrivial.load(Ordering::Relaxed) + self.distinct.lock().unwrap().len() as u64,
            "counters": *self.counters.lock().unwrap(),
            "bounds": *self.bounds.lock().unwrap(),
            "samples": *self.samples.lock().unwrap(),
            "violations": *self.violations.lock().unwrap(),
            "n_violations": self.n_violations.load(Ordering::Relaxed),
            "digest": format!("{:016x}", self.digest_sum.load(Ordering::Relaxed)),
            "digest_n": self.digest_n.load(Ordering::Relaxed),
            "tdigest": format!("{:016x}", self.tdigest_sum.load(Ordering::Relaxed)),
            "tdigest_n": self.tdigest_n.load(Ordering::Relaxed),
            "notes": *self.notes.lock().unwrap(),
            "exhaustive": *self.exhaustive.lock().unwrap(),
            "wall_s": wall_s,
        })
    }
}

// ------------------------------------------------------------------------------------------
// panic capture
// ------------------------------------------------------------------------------------------

thread_local! {
    static LAST_PANIC: std::cell::RefCell<Option<String>> = const { std::cell::RefCell::new(None) };
    static QUIET: std::cell::Cell<bool> = const { std::cell::Cell::new(false) };
}

static LAST_PANIC_ANY_THREAD: Mutex<Option<String>> = Mutex::new(None);

pub fn install_panic_hook() {
    let default = std::panic::take_hook();
    std::panic::set_hook(Box::new(move |info| {
        let msg = if let Some(s) = info.payload().downcast_ref::<&str>() {
            s.to_string()
        } else if let Some(s) = info.payload().downcast_ref::<String>() {
            s.clone()
        } else {
            "<non-string panic>".to_string()
        };
        let loc = info
            .location()
            .map(|l| format!("{}:{}", l.file(), l.line()))
            .unwrap_or_default();
        LAST_PANIC.with(|p| *p.borrow_mut() = Some(format!("{} @ {}", msg, loc)));
        if let Ok(mut g) = LAST_PANIC_ANY_THREAD.lock() {
            *g = Some(format!("{} @ {}", msg, loc));
        }
        if !QUIET.with(|q| q.get()) {
            default(info);
        }
    }));
}

// ---- watchdog bookkeeping: which thread has been inside a call into the code under test since when
pub const SLOTS: usize = 256;
#[allow(clippy::declare_interior_mutable_const)]
const ZERO: std::sync::atomic::AtomicU64 = std::sync::atomic::AtomicU64::new(0);
/// milliseconds since `epoch()` at which the outermost guarded call of the thread in this slot started (0 = none)
pub static STARTED_MS: [std::sync::atomic::AtomicU64; SLOTS] = [ZERO; SLOTS];
static NEXT_SLOT: std::sync::atomic::AtomicUsize = std::sync::atomic::AtomicUsize::new(0);
/// longest single (outermost) call into the code under test seen in this run, in ms (reported in the evidence bounds)
pub static LONGEST_CALL_MS: std::sync::atomic::AtomicU64 = std::sync::atomic::AtomicU64::new(0);
pub fn epoch() -> std::time::Instant {
    static E: std::sync::OnceLock<std::time::Instant> = std::sync::OnceLock::new();
    *E.get_or_init(std::time::Instant::now)
}
pub fn slot_labels() -> &'static Vec<Mutex<String>> {
    static L: std::sync::OnceLock<Vec<Mutex<String>>> = std::sync::OnceLock::new();
    L.get_or_init(|| (0..SLOTS).map(|_| Mutex::new(String::new())).collect())
}
thread_local! {
    static SLOT: usize = NEXT_SLOT.fetch_add(1, Ordering::Relaxed) % SLOTS;
    static GUARD_DEPTH: Cell<u32> = const { Cell::new(0) };
}
/// Remember the case the current thread is working on (shown by the watchdog if a call does not return).
pub fn set_current_case(label: &str) {
    SLOT.with(|s| {
        if let Ok(mut g) = slot_labels()[*s].lock() {
            g.clear();
            g.push_str(if label.len() > 600 { &label[..600] } else { label });
        }
    });
}

/// The top-level wrapper of a whole exploration: like `guarded`, but not timed by the watchdog.
pub fn guarded_unwatched<T>(f: impl FnOnce() -> T) -> Result<T, String> {
    guarded_impl(f, false)
}

/// Run the subject; a panic becomes `Err(message @ location)`.
pub fn guarded<T>(f: impl FnOnce() -> T) -> Result<T, String> {
    guarded_impl(f, true)
}

fn guarded_impl<T>(f: impl FnOnce() -> T, watch: bool) -> Result<T, String> {
    // the outermost watched call of a thread is what the watchdog times
    let depth = GUARD_DEPTH.with(|d| d.get());
    let timed = watch && depth == 0;
    if watch {
        GUARD_DEPTH.with(|d| d.set(depth + 1));
    }
    if timed {
        let ms = epoch().elapsed().as_millis() as u64 + 1;
        SLOT.with(|s| STARTED_MS[*s].store(ms, Ordering::Relaxed));
    }
    let was_quiet = QUIET.with(|q| q.replace(true));
    let r = catch_unwind(AssertUnwindSafe(f));
    QUIET.with(|q| q.set(was_quiet));
    if watch {
        GUARD_DEPTH.with(|d| d.set(depth));
    }
    if timed {
        SLOT.with(|s| {
            let st = STARTED_MS[*s].swap(0, Ordering::Relaxed);
            let took = (epoch().elapsed().as_millis() as u64 + 1).saturating_sub(st);
            LONGEST_CALL_MS.fetch_max(took, Ordering::Relaxed);
        });
    }
    match r {
        Ok(v) => Ok(v),
        Err(_) => Err(LAST_PANIC
            .with(|p| p.borrow_mut().take())
            .or_else(|| LAST_PANIC_ANY_THREAD.lock().ok().and_then(|g| g.clone()))
            .unwrap_or_else(|| "<panic>".into())),
    }
}
