mod alpha;
mod bfs;
mod ev;
mod heap;
mod model;
mod props;
mod real;

/// Code that needs the AVX2 hook module (only in builds whose curve25519-dalek has it).
#[macro_export]
macro_rules! with_avx2 {
    ($b:block) => {
        #[cfg(mc_avx2)]
        $b
    };
}
/// Code that needs the IFMA hook module.
#[macro_export]
macro_rules! with_ifma {
    ($b:block) => {
        #[cfg(mc_ifma)]
        $b
    };
}

#[global_allocator]
static GLOBAL: heap::Observer = heap::Observer;

use ev::{Ctx, Tier};
use serde_json::json;

fn config_json() -> serde_json::Value {
    json!({
        "backend_cfg": curve25519_dalek::verif::BACKEND_CFG,
        "field_impl": curve25519_dalek::verif::FIELD_IMPL,
        "checked_profile": cfg!(debug_assertions),
        "tables": cfg!(feature = "tables"),
        "legacy": cfg!(feature = "legacy"),
        "selected_backend": curve25519_dalek::verif::selected_backend(),
    })
}

fn usage() -> ! {
    eprintln!("usage: dalek-mc selftest | config | <PROP> --tier quick|thorough --out FILE [--dispatch auto|serial|avx2] [--transcript FILE] [--threads N]");
    std::process::exit(2);
}

fn main() {
    let args: Vec<String> = std::env::args().collect();
    if args.len() < 2 {
        usage();
    }
    ev::install_panic_hook();
    match args[1].as_str() {
        "selftest" => {
            let n = model::selftest::run();
            println!("model self-test ok: {} checks", n);
            return;
        }
        "config" => {
            println!("{}", config_json());
            return;
        }
        _ => {}
    }
    let prop = args[1].clone();
    let mut tier = Tier::Quick;
    let mut out = None;
    let mut dispatch = "auto".to_string();
    let mut transcript = None;
    let mut threads = 0usize;
    let mut deep = false;
    let mut i = 2;
    while i < args.len() {
        match args[i].as_str() {
            "--tier" => {
                tier = match args[i + 1].as_str() {
                    "quick" => Tier::Quick,
                    "thorough" => Tier::Thorough,
                    _ => usage(),
                };
                i += 2;
            }
            "--out" => {
                out = Some(args[i + 1].clone());
                i += 2;
            }
            "--dispatch" => {
                dispatch = args[i + 1].clone();
                i += 2;
            }
            "--transcript" => {
                transcript = Some(args[i + 1].clone());
                i += 2;
            }
            "--deep" => {
                deep = true;
                i += 1;
            }
            "--threads" => {
                threads = args[i + 1].parse().unwrap();
                i += 2;
            }
            _ => usage(),
        }
    }
    let force = match dispatch.as_str() {
        "auto" => 0u8,
        "serial" => 1,
        "avx2" => 2,
        _ => usage(),
    };
    // every worker thread gets the same dispatch override
    rayon::ThreadPoolBuilder::new()
        .num_threads(threads)
        .start_handler(move |_| curve25519_dalek::verif::force_backend(force))
        .build_global()
        .unwrap();
    curve25519_dalek::verif::force_backend(force);
    FORCE.store(force, std::sync::atomic::Ordering::Relaxed);
    // prove that the override took effect (non-vacuity of the forced-dispatch runs)
    let sel = curve25519_dalek::verif::selected_backend();
    let want_sel = match (force, curve25519_dalek::verif::BACKEND_CFG) {
        (1, _) => 0,
        (2, "simd") | (2, "unstable_avx512") => 2,
        (0, "simd") => 2,
        (0, "unstable_avx512") => 3,
        (0, _) => 0,
        _ => {
            eprintln!("dispatch {} is not available in a {} build", dispatch, curve25519_dalek::verif::BACKEND_CFG);
            std::process::exit(2);
        }
    };
    if sel != want_sel {
        eprintln!("dispatcher selects {} but this run expects {} (CPU lacks the feature?)", sel, want_sel);
        std::process::exit(2);
    }

    let t0 = std::time::Instant::now();
    let n = model::selftest::run();
    let mut ctx = Ctx::new(&prop, tier, &dispatch, transcript.as_deref());
    ctx.deep = deep;
    let ctx = ctx;
    ctx.count("model_selftest_checks", n as u64);
    let run = || match prop.as_str() {
        "C01" => props::c01::run(&ctx),
        "C02" => props::c02::run(&ctx),
        "C03" => props::c03::run(&ctx),
        "C04" => props::c04::run(&ctx),
        "C06" => props::c06::run(&ctx),
        "C07" => props::c07::run(&ctx),
        #[cfg(feature = "ed")]
        "C08" => props::c08::run(&ctx),
        #[cfg(feature = "ed")]
        "C09" => props::c09::run(&ctx),
        "C11c" => props::c11c::run(&ctx),
        "C12" => props::c12::run(&ctx),
        #[cfg(feature = "ed")]
        "C13" => props::c13::run(&ctx),
        #[cfg(all(feature = "zeroize", feature = "ed"))]
        "C14" => props::c14::run(&ctx),
        #[cfg(feature = "ed")]
        "C15" => props::c15::run(&ctx),
        #[cfg(feature = "ed")]
        "C16" => props::c16::run(&ctx),
        "C17" => props::c17::run(&ctx),
        _ => {
            eprintln!("unknown property {}", prop);
            std::process::exit(2);
        }
    };
    // A panic that escapes an explorer means that an assumption the explorer makes about the
    // code under test failed outside a guarded call (for instance a constructor that must
    // succeed on a model-valid input did not).  On the unchanged tree this never happens; it is
    // reported as a violation with the panic message rather than as a machinery crash.
    // Watchdog: a call into the code under test that does not return is an observation (C15: "terminates"), not a
    // reason to hang the check: after MC_WATCHDOG_SECS (default 120) inside one guarded call, report it with the case
    // the thread was working on, write the evidence and stop.
    let done = std::sync::atomic::AtomicBool::new(false);
    let limit_ms: u64 = std::env::var("MC_WATCHDOG_SECS").ok().and_then(|v| v.parse().ok()).unwrap_or(120u64) * 1000;
    let run_result = std::thread::scope(|sc| {
        sc.spawn(|| {
            while !done.load(std::sync::atomic::Ordering::Relaxed) {
                std::thread::sleep(std::time::Duration::from_millis(500));
                let now = ev::epoch().elapsed().as_millis() as u64 + 1;
                for i in 0..ev::SLOTS {
                    let st = ev::STARTED_MS[i].load(std::sync::atomic::Ordering::Relaxed);
                    if st != 0 && now > st && now - st > limit_ms {
                        let label = ev::slot_labels()[i].lock().map(|g| g.clone()).unwrap_or_default();
                        ctx.violation(
                            "engine.nontermination",
                            &format!("a call into the code under test has not returned after {} s (it neither returned nor panicked)", limit_ms / 1000),
                            json!({"kind": "nontermination", "last_case_of_thread": label}),
                        );
                        let j = ctx.to_json(config_json(), t0.elapsed().as_secs_f64());
                        let s = serde_json::to_string_pretty(&j).unwrap();
                        match &out {
                            Some(p) => std::fs::write(p, s).unwrap(),
                            None => println!("{}", s),
                        }
                        std::process::exit(0);
                    }
                }
            }
        });
        let r = ev::guarded_unwatched(run);
        done.store(true, std::sync::atomic::Ordering::Relaxed);
        r
    });
    if let Err(e) = run_result {
        ctx.violation(
            "engine.assumption",
            &format!("an assumption of the explorer about the code under test failed: {}", e),
            json!({"kind": "engine_panic", "message": e}),
        );
    }
    // entry-of-kernel monitors of the vector fields (hook H6): largest lane excess seen per kernel
    with_avx2!({
        let mut all: Vec<(&'static str, f64, u64)> = curve25519_dalek::verif::monitor::maxima();
        for v in rayon::broadcast(|_| curve25519_dalek::verif::monitor::maxima()) {
            all.extend(v);
        }
        let mut agg: std::collections::BTreeMap<&'static str, (f64, u64)> = Default::default();
        for (k, e, n) in all {
            let a = agg.entry(k).or_insert((f64::MIN, 0));
            a.0 = a.0.max(e);
            a.1 += n;
        }
        let m: serde_json::Map<String, serde_json::Value> = agg
            .iter()
            .map(|(k, (e, n))| (k.to_string(), json!({"max_excess_or_bits": (e * 10000.0).round() / 10000.0, "calls": n})))
            .collect();
        if !m.is_empty() {
            ctx.bound("vector_kernel_monitors", serde_json::Value::Object(m));
        }
    });
    ctx.bound("longest_single_call_ms", json!(ev::LONGEST_CALL_MS.load(std::sync::atomic::Ordering::Relaxed)));
    ctx.bound("watchdog_limit_s", json!(limit_ms / 1000));
    let j = ctx.to_json(config_json(), t0.elapsed().as_secs_f64());
    let s = serde_json::to_string_pretty(&j).unwrap();
    match out {
        Some(p) => std::fs::write(p, s).unwrap(),
        None => println!("{}", s),
    }
}

/// The dispatch override of this run, for threads not created by rayon (stateright workers).
pub static FORCE: std::sync::atomic::AtomicU8 = std::sync::atomic::AtomicU8::new(0);
pub fn apply_force() {
    curve25519_dalek::verif::force_backend(FORCE.load(std::sync::atomic::Ordering::Relaxed));
}
