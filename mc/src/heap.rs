//! Heap observer: a global allocator that, while armed on the current thread, copies every
//! block handed to `dealloc` (and therefore every block `realloc` gives up: the default
//! `realloc` is alloc + copy + dealloc on this allocator) at the moment it is freed.

use std::alloc::{GlobalAlloc, Layout, System};
use std::cell::{Cell, RefCell};

pub struct Observer;

#[derive(Clone, Debug, PartialEq, Eq)]
pub struct Freed {
    pub size: usize,
    pub align: usize,
    pub content: Vec<u8>,
}

thread_local! {
    static ARMED: Cell<bool> = const { Cell::new(false) };
    static BUSY: Cell<bool> = const { Cell::new(false) };
    static LOG: RefCell<Vec<Freed>> = const { RefCell::new(Vec::new()) };
}

unsafe impl GlobalAlloc for Observer {
    unsafe fn alloc(&self, layout: Layout) -> *mut u8 {
        System.alloc(layout)
    }
    unsafe fn alloc_zeroed(&self, layout: Layout) -> *mut u8 {
        System.alloc_zeroed(layout)
    }
    unsafe fn dealloc(&self, ptr: *mut u8, layout: Layout) {
        let armed = ARMED.try_with(|a| a.get()).unwrap_or(false);
        if armed {
            let busy = BUSY.try_with(|b| b.replace(true)).unwrap_or(true);
            if !busy {
                let content = std::slice::from_raw_parts(ptr, layout.size()).to_vec();
                let _ = LOG.try_with(|l| l.borrow_mut().push(Freed { size: layout.size(), align: layout.align(), content }));
                let _ = BUSY.try_with(|b| b.set(false));
            }
        }
        System.dealloc(ptr, layout)
    }
    // realloc deliberately not overridden: the default goes through alloc/dealloc above
}

/// Run `f` with the observer armed on this thread; returns its result and the blocks freed
/// during the call, in order.
pub fn observe<T>(f: impl FnOnce() -> T) -> (T, Vec<Freed>) {
    // disarm on every exit, including a panic unwinding out of `f` (the caller may catch it and observe again)
    struct Disarm;
    impl Drop for Disarm {
        fn drop(&mut self) {
            let _ = ARMED.try_with(|a| a.set(false));
        }
    }
    ARMED.with(|a| a.set(false));
    let old = LOG.with(|l| std::mem::take(&mut *l.borrow_mut()));
    drop(old);
    let _guard = Disarm;
    ARMED.with(|a| a.set(true));
    let r = f();
    ARMED.with(|a| a.set(false));
    let log = LOG.with(|l| std::mem::take(&mut *l.borrow_mut()));
    (r, log)
}

/// The blocks logged by the last `observe` on this thread whose closure did not return (it panicked): the observer is
/// disarmed by then, the log is still there.
pub fn take_log() -> Vec<Freed> {
    LOG.with(|l| std::mem::take(&mut *l.borrow_mut()))
}

/// Does any freed block contain any `window`-byte substring of `secret`?
pub fn find_leak(log: &[Freed], secret: &[u8], window: usize) -> Option<(usize, usize)> {
    if secret.len() < window {
        return None;
    }
    for (bi, b) in log.iter().enumerate() {
        if b.content.len() < window {
            continue;
        }
        for s in 0..=(secret.len() - window) {
            let w = &secret[s..s + window];
            // low-entropy windows (zeros, 01 00 00 .., ff ff ..) also occur in public data such
            // as the limbs of field-element constants: only windows with at least five
            // distinct byte values count as evidence
            let mut seen = [false; 256];
            let mut distinct = 0;
            for x in w {
                if !seen[*x as usize] {
                    seen[*x as usize] = true;
                    distinct += 1;
                }
            }
            if distinct < 5 {
                continue;
            }
            if b.content.windows(window).any(|c| c == w) {
                return Some((bi, s));
            }
        }
    }
    None
}
