//! RFC 8032 Ed25519 / Ed25519ph, with verification *as documented by ed25519-dalek*
//! (cofactorless equation, byte comparison of R).

use super::ed::{self, Pt};
use super::mont::clamp;
use super::nat::U;
use super::zl::{l, Zl};
use sha2::{Digest, Sha512};

pub fn sha512(parts: &[&[u8]]) -> [u8; 64] {
    let mut h = Sha512::new();
    for p in parts {
        h.update(p);
    }
    let mut out = [0u8; 64];
    out.copy_from_slice(&h.finalize());
    out
}

pub fn dom2(ph: u8, ctx: &[u8]) -> Vec<u8> {
    assert!(ctx.len() <= 255);
    let mut v = b"SigEd25519 no Ed25519 collisions".to_vec();
    v.push(ph);
    v.push(ctx.len() as u8);
    v.extend_from_slice(ctx);
    v
}

pub struct Key {
    pub a: U,            // clamped secret scalar as an integer (not reduced)
    pub a_bytes: [u8; 32],
    pub prefix: [u8; 32],
    pub public: [u8; 32],
}

pub fn keygen(seed: &[u8; 32]) -> Key {
    let h = sha512(&[seed]);
    let mut lo = [0u8; 32];
    lo.copy_from_slice(&h[..32]);
    let a_bytes = clamp(&lo);
    let a = U::from_le(&a_bytes);
    let mut prefix = [0u8; 32];
    prefix.copy_from_slice(&h[32..]);
    let public = ed::mul_base(&a.rem(&l())).compress();
    Key {
        a,
        a_bytes,
        prefix,
        public,
    }
}

/// ctx = None: pure Ed25519 over msg; ctx = Some(c): Ed25519ph with PH(msg) = SHA-512(msg).
pub fn sign(seed: &[u8; 32], msg: &[u8], ctx: Option<&[u8]>) -> [u8; 64] {
    let k = keygen(seed);
    let (dom, m): (Vec<u8>, Vec<u8>) = match ctx {
        None => (vec![], msg.to_vec()),
        Some(c) => (dom2(1, c), sha512(&[msg]).to_vec()),
    };
    sign_expanded(&k.a, &k.prefix, &k.public, &dom, &m)
}

pub fn sign_expanded(a: &U, prefix: &[u8; 32], public: &[u8; 32], dom: &[u8], m: &[u8]) -> [u8; 64] {
    let r = Zl::from_le(&sha512(&[dom, prefix, m]));
    let rr = ed::mul_base(&r.0).compress();
    let h = Zl::from_le(&sha512(&[dom, &rr, public, m]));
    let s = r.add(&h.mul(&Zl::new(a)));
    let mut sig = [0u8; 64];
    sig[..32].copy_from_slice(&rr);
    sig[32..].copy_from_slice(&s.to_bytes());
    sig
}

#[derive(Clone, Copy, PartialEq, Eq, Debug)]
pub enum Reject {
    SNotCanonical,
    KeyUndecodable,
    RUndecodable,
    SmallOrderR,
    SmallOrderA,
    Equation,
}

/// The documented acceptance rule.  `m` is the message (pure) or its SHA-512 prehash (ph).
pub fn verify(
    a_bytes: &[u8; 32],
    m: &[u8],
    sig: &[u8; 64],
    ctx: Option<&[u8]>,
    strict: bool,
    legacy: bool,
) -> Result<(), Reject> {
    let mut rb = [0u8; 32];
    rb.copy_from_slice(&sig[..32]);
    let mut sb = [0u8; 32];
    sb.copy_from_slice(&sig[32..]);
    let s = U::from_le(&sb);
    if legacy {
        if sb[31] & 0xe0 != 0 {
            return Err(Reject::SNotCanonical);
        }
    } else if s >= l() {
        return Err(Reject::SNotCanonical);
    }
    let a = ed::decompress(a_bytes).ok_or(Reject::KeyUndecodable)?;
    let dom = match ctx {
        None => vec![],
        Some(c) => dom2(1, c),
    };
    if strict {
        let r = ed::decompress(&rb).ok_or(Reject::RUndecodable)?;
        if r.is_small_order() {
            return Err(Reject::SmallOrderR);
        }
        if a.is_small_order() {
            return Err(Reject::SmallOrderA);
        }
    }
    let k = Zl::from_le(&sha512(&[&dom, &rb, a_bytes, m]));
    // [S]B - [k]A ; A may have torsion, so multiply A by the integer k (k < l), and B by S
    // (in legacy mode S may exceed l; B has order l so reduce).
    let sb_pt = ed::mul_base(&s.rem(&l()));
    let ka = a.mul(&k.0);
    let rhs: Pt = sb_pt.sub(&ka);
    if rhs.compress() == rb {
        Ok(())
    } else {
        Err(Reject::Equation)
    }
}
