//! Fixed-width (512-bit) natural numbers.  Deliberately simple: schoolbook multiplication,
//! shift-and-subtract division.  No dependency on the code under test.

use std::cmp::Ordering;

#[derive(Clone, Copy, PartialEq, Eq, Hash, Debug, Default)]
pub struct U(pub [u64; 8]);

impl PartialOrd for U {
    fn partial_cmp(&self, o: &U) -> Option<Ordering> {
        Some(self.cmp(o))
    }
}
impl Ord for U {
    fn cmp(&self, o: &U) -> Ordering {
        for i in (0..8).rev() {
            if self.0[i] != o.0[i] {
                return self.0[i].cmp(&o.0[i]);
            }
        }
        Ordering::Equal
    }
}

impl U {
    pub const ZERO: U = U([0; 8]);
    pub const ONE: U = U([1, 0, 0, 0, 0, 0, 0, 0]);

    pub const fn from_u64(x: u64) -> U {
        U([x, 0, 0, 0, 0, 0, 0, 0])
    }
    pub fn from_u128(x: u128) -> U {
        U([x as u64, (x >> 64) as u64, 0, 0, 0, 0, 0, 0])
    }
    /// Little-endian bytes, at most 64.
    pub fn from_le(b: &[u8]) -> U {
        assert!(b.len() <= 64);
        let mut r = [0u64; 8];
        for (i, x) in b.iter().enumerate() {
            r[i / 8] |= (*x as u64) << (8 * (i % 8));
        }
        U(r)
    }
    /// Parse a decimal string.
    pub fn from_dec(s: &str) -> U {
        let mut r = U::ZERO;
        for c in s.bytes() {
            assert!(c.is_ascii_digit());
            r = r.mul(&U::from_u64(10)).add(&U::from_u64((c - b'0') as u64));
        }
        r
    }
    pub fn to_le64(&self) -> [u8; 64] {
        let mut b = [0u8; 64];
        for i in 0..64 {
            b[i] = (self.0[i / 8] >> (8 * (i % 8))) as u8;
        }
        b
    }
    /// The low 32 bytes; panics if the value does not fit in 256 bits.
    pub fn to_le32(&self) -> [u8; 32] {
        assert!(self.0[4..].iter().all(|x| *x == 0), "value exceeds 256 bits");
        let b = self.to_le64();
        let mut r = [0u8; 32];
        r.copy_from_slice(&b[..32]);
        r
    }
    pub fn is_zero(&self) -> bool {
        self.0.iter().all(|x| *x == 0)
    }
    pub fn bit(&self, i: usize) -> bool {
        i < 512 && (self.0[i / 64] >> (i % 64)) & 1 == 1
    }
    /// Number of significant bits.
    pub fn bits(&self) -> usize {
        for i in (0..8).rev() {
            if self.0[i] != 0 {
                return 64 * i + 64 - self.0[i].leading_zeros() as usize;
            }
        }
        0
    }
    pub fn low_u64(&self) -> u64 {
        self.0[0]
    }
    pub fn add(&self, o: &U) -> U {
        let mut r = [0u64; 8];
        let mut c = 0u128;
        for i in 0..8 {
            let t = self.0[i] as u128 + o.0[i] as u128 + c;
            r[i] = t as u64;
            c = t >> 64;
        }
        assert!(c == 0, "U::add overflow");
        U(r)
    }
    /// self - o; panics on underflow.
    pub fn sub(&self, o: &U) -> U {
        assert!(*self >= *o, "U::sub underflow");
        let mut r = [0u64; 8];
        let mut b = 0i128;
        for i in 0..8 {
            let t = self.0[i] as i128 - o.0[i] as i128 - b;
            if t < 0 {
                r[i] = (t + (1i128 << 64)) as u64;
                b = 1;
            } else {
                r[i] = t as u64;
                b = 0;
            }
        }
        U(r)
    }
    /// Full product; panics if it does not fit in 512 bits.
    pub fn mul(&self, o: &U) -> U {
        let mut r = [0u64; 16];
        for i in 0..8 {
            if self.0[i] == 0 {
                continue;
            }
            let mut c = 0u128;
            for j in 0..8 {
                let t = self.0[i] as u128 * o.0[j] as u128 + r[i + j] as u128 + c;
                r[i + j] = t as u64;
                c = t >> 64;
            }
            r[i + 8] = c as u64;
        }
        assert!(r[8..].iter().all(|x| *x == 0), "U::mul overflow");
        let mut q = [0u64; 8];
        q.copy_from_slice(&r[..8]);
        U(q)
    }
    pub fn shl(&self, n: usize) -> U {
        assert!(self.bits() + n <= 512, "U::shl overflow");
        let (w, b) = (n / 64, n % 64);
        let mut r = [0u64; 8];
        for i in (0..8).rev() {
            if i >= w {
                let mut v = self.0[i - w] << b;
                if b > 0 && i > w {
                    v |= self.0[i - w - 1] >> (64 - b);
                }
                r[i] = v;
            }
        }
        U(r)
    }
    pub fn shr(&self, n: usize) -> U {
        if n >= 512 {
            return U::ZERO;
        }
        let (w, b) = (n / 64, n % 64);
        let mut r = [0u64; 8];
        for i in 0..8 {
            if i + w < 8 {
                let mut v = self.0[i + w] >> b;
                if b > 0 && i + w + 1 < 8 {
                    v |= self.0[i + w + 1] << (64 - b);
                }
                r[i] = v;
            }
        }
        U(r)
    }
    /// The low n bits.
    pub fn low_bits(&self, n: usize) -> U {
        if n >= 512 {
            return *self;
        }
        let mut r = self.0;
        for i in 0..8 {
            if 64 * i >= n {
                r[i] = 0;
            } else if 64 * (i + 1) > n {
                r[i] &= (1u64 << (n - 64 * i)) - 1;
            }
        }
        U(r)
    }
    /// (quotient, remainder) by shift-and-subtract.
    pub fn divrem(&self, m: &U) -> (U, U) {
        assert!(!m.is_zero());
        let mut q = U::ZERO;
        let mut r = U::ZERO;
        for i in (0..self.bits()).rev() {
            r = r.shl(1);
            if self.bit(i) {
                r.0[0] |= 1;
            }
            if r >= *m {
                r = r.sub(m);
                q.0[i / 64] |= 1u64 << (i % 64);
            }
        }
        (q, r)
    }
    pub fn rem(&self, m: &U) -> U {
        self.divrem(m).1
    }
    /// 2^n
    pub fn pow2(n: usize) -> U {
        U::ONE.shl(n)
    }
    pub fn hex(&self) -> String {
        let b = self.to_le64();
        let n = (self.bits() + 7) / 8;
        let n = n.max(1);
        b[..n].iter().rev().map(|x| format!("{:02x}", x)).collect()
    }
}

pub fn hex(b: &[u8]) -> String {
    b.iter().map(|x| format!("{:02x}", x)).collect()
}

pub fn unhex(s: &str) -> Vec<u8> {
    let s: Vec<u8> = s.bytes().filter(|c| !c.is_ascii_whitespace()).collect();
    assert!(s.len() % 2 == 0);
    s.chunks(2)
        .map(|p| u8::from_str_radix(std::str::from_utf8(p).unwrap(), 16).unwrap())
        .collect()
}
