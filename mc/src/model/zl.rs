//! Z/lZ, l = 2^252 + 27742317777372353535851937790883648493.

use super::nat::U;
use std::sync::OnceLock;

pub fn l() -> U {
    static L: OnceLock<U> = OnceLock::new();
    *L.get_or_init(|| {
        U::pow2(252).add(&U::from_dec("27742317777372353535851937790883648493"))
    })
}

/// c = l - 2^252, so 2^252 = -c (mod l).
fn c() -> U {
    static C: OnceLock<U> = OnceLock::new();
    *C.get_or_init(|| U::from_dec("27742317777372353535851937790883648493"))
}

/// x mod l by repeatedly folding 2^252 = -c: x = lo0 - (hi0*c), hi0*c = lo1 - (hi1*c), ...
/// so x = lo0 - lo1 + lo2 - ... ; the alternating sum is kept as (pos, neg) and made
/// non-negative with a multiple of l.  Checked against shift-and-subtract division in the
/// self-test.
pub fn reduce(x: &U) -> U {
    let ll = l();
    let mut pos = U::ZERO;
    let mut neg = U::ZERO;
    let mut t = *x;
    let mut sign = true;
    loop {
        let lo = t.low_bits(252);
        let hi = t.shr(252);
        if sign {
            pos = pos.add(&lo);
        } else {
            neg = neg.add(&lo);
        }
        if hi.is_zero() {
            break;
        }
        t = hi.mul(&c());
        sign = !sign;
    }
    // pos, neg < 4 * 2^252 each (at most 4 terms of < 2^252 per side)
    let mut r = pos.add(&ll.shl(2)).sub(&neg);
    while r >= ll {
        r = r.sub(&ll);
    }
    r
}

#[derive(Clone, Copy, PartialEq, Eq, Hash, Debug, PartialOrd, Ord)]
pub struct Zl(pub U);

impl Zl {
    pub const ZERO: Zl = Zl(U::ZERO);
    pub const ONE: Zl = Zl(U::ONE);
    pub fn new(x: &U) -> Zl {
        Zl(reduce(x))
    }
    pub fn from_u64(x: u64) -> Zl {
        Zl(U::from_u64(x))
    }
    /// Reduce a little-endian byte string of at most 64 bytes.
    pub fn from_le(b: &[u8]) -> Zl {
        Zl::new(&U::from_le(b))
    }
    /// Some iff the 32 bytes encode an integer below l.
    pub fn from_canonical(b: &[u8; 32]) -> Option<Zl> {
        let x = U::from_le(b);
        if x < l() {
            Some(Zl(x))
        } else {
            None
        }
    }
    pub fn to_bytes(&self) -> [u8; 32] {
        self.0.to_le32()
    }
    pub fn add(&self, o: &Zl) -> Zl {
        let s = self.0.add(&o.0);
        if s >= l() {
            Zl(s.sub(&l()))
        } else {
            Zl(s)
        }
    }
    pub fn neg(&self) -> Zl {
        if self.0.is_zero() {
            *self
        } else {
            Zl(l().sub(&self.0))
        }
    }
    pub fn sub(&self, o: &Zl) -> Zl {
        self.add(&o.neg())
    }
    pub fn mul(&self, o: &Zl) -> Zl {
        Zl::new(&self.0.mul(&o.0))
    }
    pub fn pow(&self, e: &U) -> Zl {
        let mut r = Zl::ONE;
        for i in (0..e.bits()).rev() {
            r = r.mul(&r);
            if e.bit(i) {
                r = r.mul(self);
            }
        }
        r
    }
    /// x^(l-2) (l is prime; checked by the self-test through Fermat witnesses)
    pub fn inv(&self) -> Zl {
        assert!(!self.0.is_zero());
        self.pow(&l().sub(&U::from_u64(2)))
    }
    pub fn is_zero(&self) -> bool {
        self.0.is_zero()
    }
}
