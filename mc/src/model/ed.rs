//! The twisted Edwards curve -x^2 + y^2 = 1 + d x^2 y^2 over GF(p), affine, with the complete
//! addition law as the definition of the group.  A projective (X:Y:Z) ladder is used only to
//! make scalar multiplication fast; the self-test checks it against the affine definition.

use super::fp::{d, sqrt_ratio_i, Fp};
use super::nat::U;
use super::zl::l;
use std::sync::OnceLock;

#[derive(Clone, Copy, PartialEq, Eq, Hash, Debug)]
pub struct Pt {
    pub x: Fp,
    pub y: Fp,
}

pub const ID: Pt = Pt {
    x: Fp::ZERO,
    y: Fp::ONE,
};

pub fn on_curve(x: &Fp, y: &Fp) -> bool {
    let (xx, yy) = (x.sq(), y.sq());
    yy.sub(&xx) == Fp::ONE.add(&d().mul(&xx).mul(&yy))
}

impl Pt {
    pub fn is_on_curve(&self) -> bool {
        on_curve(&self.x, &self.y)
    }
    /// The defining (complete) affine addition law.
    pub fn add(&self, q: &Pt) -> Pt {
        let t = d().mul(&self.x).mul(&q.x).mul(&self.y).mul(&q.y);
        let den = Fp::ONE.add(&t).mul(&Fp::ONE.sub(&t)).inv(); // 1/((1+t)(1-t))
        let x = self.x.mul(&q.y).add(&q.x.mul(&self.y)).mul(&Fp::ONE.sub(&t)).mul(&den);
        let y = self.y.mul(&q.y).add(&self.x.mul(&q.x)).mul(&Fp::ONE.add(&t)).mul(&den);
        Pt { x, y }
    }
    pub fn neg(&self) -> Pt {
        Pt {
            x: self.x.neg(),
            y: self.y,
        }
    }
    pub fn sub(&self, q: &Pt) -> Pt {
        self.add(&q.neg())
    }
    pub fn dbl(&self) -> Pt {
        self.add(self)
    }
    /// Scalar multiplication straight from the definition (slow; used in the self-test and
    /// for small scalars).
    pub fn mul_def(&self, k: &U) -> Pt {
        let mut r = ID;
        for i in (0..k.bits()).rev() {
            r = r.dbl();
            if k.bit(i) {
                r = r.add(self);
            }
        }
        r
    }
    /// Fast scalar multiplication (projective inside).
    pub fn mul(&self, k: &U) -> Pt {
        let pp = Proj::from_affine(self);
        let mut r = Proj::ID;
        for i in (0..k.bits()).rev() {
            r = r.add(&r);
            if k.bit(i) {
                r = r.add(&pp);
            }
        }
        r.to_affine()
    }
    pub fn is_identity(&self) -> bool {
        *self == ID
    }
    pub fn is_small_order(&self) -> bool {
        self.mul(&U::from_u64(8)).is_identity()
    }
    pub fn is_torsion_free(&self) -> bool {
        self.mul(&l()).is_identity()
    }
    /// Canonical 32-byte encoding.
    pub fn compress(&self) -> [u8; 32] {
        let mut b = self.y.to_bytes();
        b[31] |= (self.x.is_neg() as u8) << 7;
        b
    }
    /// Montgomery u = (1+y)/(1-y); the identity (y = 1) maps to 0 since inv(0) = 0.
    pub fn to_montgomery_u(&self) -> Fp {
        Fp::ONE.add(&self.y).mul(&Fp::ONE.sub(&self.y).inv())
    }
}

/// Decode per RFC 8032 section 5.1.3 *as the crate documents it*: y is the low 255 bits
/// reduced mod p (non-canonical y accepted), x = sqrt((y^2-1)/(dy^2+1)) must exist, the sign
/// bit selects x; x = 0 with sign bit 1 is accepted (returns x = 0).
pub fn decompress(b: &[u8; 32]) -> Option<Pt> {
    let y = Fp::from_bytes(b);
    let sign = b[31] >> 7 == 1;
    let yy = y.sq();
    let (ok, mut x) = sqrt_ratio_i(&yy.sub(&Fp::ONE), &d().mul(&yy).add(&Fp::ONE));
    if !ok {
        return None;
    }
    if sign {
        x = x.neg();
    }
    Some(Pt { x, y })
}

/// Projective (X:Y:Z), x = X/Z, y = Y/Z; addition add-2008-bbjlp with a = -1 (complete).
#[derive(Clone, Copy, Debug)]
pub struct Proj {
    pub x: Fp,
    pub y: Fp,
    pub z: Fp,
}

impl Proj {
    pub const ID: Proj = Proj {
        x: Fp::ZERO,
        y: Fp::ONE,
        z: Fp::ONE,
    };
    pub fn from_affine(p: &Pt) -> Proj {
        Proj {
            x: p.x,
            y: p.y,
            z: Fp::ONE,
        }
    }
    pub fn add(&self, o: &Proj) -> Proj {
        let a = self.z.mul(&o.z);
        let b = a.sq();
        let c = self.x.mul(&o.x);
        let dd = self.y.mul(&o.y);
        let e = d().mul(&c).mul(&dd);
        let f = b.sub(&e);
        let g = b.add(&e);
        let x3 = a
            .mul(&f)
            .mul(&self.x.add(&self.y).mul(&o.x.add(&o.y)).sub(&c).sub(&dd));
        let y3 = a.mul(&g).mul(&dd.add(&c)); // D - a*C with a = -1
        let z3 = f.mul(&g);
        Proj { x: x3, y: y3, z: z3 }
    }
    pub fn to_affine(&self) -> Pt {
        let zi = self.z.inv();
        Pt {
            x: self.x.mul(&zi),
            y: self.y.mul(&zi),
        }
    }
}

/// The Ed25519 basepoint: y = 4/5, x nonnegative.
pub fn basepoint() -> Pt {
    static C: OnceLock<Pt> = OnceLock::new();
    *C.get_or_init(|| {
        let y = Fp::from_u64(4).mul(&Fp::from_u64(5).inv());
        let p = decompress(&y.to_bytes()).expect("basepoint");
        assert!(!p.x.is_neg());
        p
    })
}

struct BaseTable {
    pow2: Vec<Proj>, // 2^i * B, i in 0..256
}

fn base_table() -> &'static BaseTable {
    static C: OnceLock<BaseTable> = OnceLock::new();
    C.get_or_init(|| {
        let mut v = Vec::with_capacity(256);
        let mut q = basepoint();
        for _ in 0..256 {
            v.push(Proj::from_affine(&q));
            q = q.dbl(); // affine definition
        }
        BaseTable { pow2: v }
    })
}

/// k*B for k < 2^256 using additions of precomputed 2^i*B.
pub fn mul_base(k: &U) -> Pt {
    assert!(k.bits() <= 256);
    let t = base_table();
    let mut r = Proj::ID;
    for i in 0..k.bits() {
        if k.bit(i) {
            r = r.add(&t.pow2[i]);
        }
    }
    r.to_affine()
}

/// The eight torsion points T_j = j*T_1, where T_1 is *the crate's documented* generator
/// choice `EIGHT_TORSION[1]`; the model derives the 8-torsion subgroup itself: it finds a
/// point of order exactly 8 by clearing the l-part of a curve point, then orders the
/// subgroup so that index j is j*T_1 with T_1 the order-8 point with the encoding that the
/// self-test pins (see selftest).  Here: all 8 points as a cyclic group generated by `g`.
pub fn torsion() -> &'static [Pt; 8] {
    static C: OnceLock<[Pt; 8]> = OnceLock::new();
    C.get_or_init(|| {
        // find a point of order 8: take small y until l*P has order 8
        let mut g = None;
        for yv in 2u64..200 {
            let mut b = [0u8; 32];
            b[0] = yv as u8;
            if let Some(p) = decompress(&b) {
                let q = p.mul_def(&l());
                // order 8 iff 4q != identity
                if !q.dbl().dbl().is_identity() {
                    g = Some(q);
                    break;
                }
            }
        }
        let g = g.expect("order-8 point");
        // Normalise the generator: the crate's EIGHT_TORSION[1] has encoding
        // c7176a70...7a (x negative? pinned in selftest).  Choose among the four order-8
        // points the one whose compressed encoding is lexicographically... no: choose by
        // the documented value, held as data in selftest; here use the multiple k*g (k odd)
        // whose encoding matches.
        let want = super::selftest::EIGHT_TORSION_1_ENC;
        let mut gen = None;
        for k in [1u64, 3, 5, 7] {
            let c = g.mul_def(&U::from_u64(k));
            if c.compress() == want {
                gen = Some(c);
            }
        }
        let gen = gen.expect("documented EIGHT_TORSION[1] is an order-8 point");
        let mut out = [ID; 8];
        for j in 1..8 {
            out[j] = out[j - 1].add(&gen);
        }
        assert!(out[7].add(&gen).is_identity());
        out
    })
}

/// a*B + T_j
pub fn from_aj(a: &U, j: u8) -> Pt {
    mul_base(a).add(&torsion()[(j % 8) as usize])
}
