//! GF(2^255-19) as integers mod p.

use super::nat::U;
use std::sync::OnceLock;

#[derive(Clone, Copy, PartialEq, Eq, Hash, Debug, PartialOrd, Ord)]
pub struct Fp(pub U);

pub fn p() -> U {
    static P: OnceLock<U> = OnceLock::new();
    *P.get_or_init(|| U::pow2(255).sub(&U::from_u64(19)))
}

/// x mod p for any 512-bit x, by folding 2^255 = 19 (mod p).
pub fn reduce(x: &U) -> U {
    let mut x = *x;
    let pp = p();
    while x.bits() > 255 {
        let lo = x.low_bits(255);
        let hi = x.shr(255);
        // hi < 2^257, 19*hi < 2^262
        x = lo.add(&hi.mul(&U::from_u64(19)));
    }
    while x >= pp {
        x = x.sub(&pp);
    }
    x
}

impl Fp {
    pub const ZERO: Fp = Fp(U::ZERO);
    pub const ONE: Fp = Fp(U::ONE);

    pub fn new(x: &U) -> Fp {
        Fp(reduce(x))
    }
    pub fn from_u64(x: u64) -> Fp {
        Fp(U::from_u64(x))
    }
    /// Decode 32 bytes: bit 255 ignored, value reduced.
    pub fn from_bytes(b: &[u8; 32]) -> Fp {
        Fp::new(&U::from_le(b).low_bits(255))
    }
    /// The canonical encoding.
    pub fn to_bytes(&self) -> [u8; 32] {
        self.0.to_le32()
    }
    pub fn add(&self, o: &Fp) -> Fp {
        Fp::new(&self.0.add(&o.0))
    }
    pub fn neg(&self) -> Fp {
        if self.0.is_zero() {
            *self
        } else {
            Fp(p().sub(&self.0))
        }
    }
    pub fn sub(&self, o: &Fp) -> Fp {
        self.add(&o.neg())
    }
    pub fn mul(&self, o: &Fp) -> Fp {
        Fp::new(&self.0.mul(&o.0))
    }
    pub fn sq(&self) -> Fp {
        self.mul(self)
    }
    pub fn pow(&self, e: &U) -> Fp {
        let mut r = Fp::ONE;
        for i in (0..e.bits()).rev() {
            r = r.sq();
            if e.bit(i) {
                r = r.mul(self);
            }
        }
        r
    }
    fn sqn(&self, n: usize) -> Fp {
        let mut x = *self;
        for _ in 0..n {
            x = x.sq();
        }
        x
    }
    /// x^(2^250 - 1) by the usual addition chain (checked against `pow` in the self-test).
    fn pow_2_250_1(&self) -> (Fp, Fp) {
        let z2 = self.sq();
        let z9 = z2.sqn(2).mul(self);
        let z11 = z9.mul(&z2);
        let z2_5_0 = z11.sq().mul(&z9);
        let z2_10_0 = z2_5_0.sqn(5).mul(&z2_5_0);
        let z2_20_0 = z2_10_0.sqn(10).mul(&z2_10_0);
        let z2_40_0 = z2_20_0.sqn(20).mul(&z2_20_0);
        let z2_50_0 = z2_40_0.sqn(10).mul(&z2_10_0);
        let z2_100_0 = z2_50_0.sqn(50).mul(&z2_50_0);
        let z2_200_0 = z2_100_0.sqn(100).mul(&z2_100_0);
        let z2_250_0 = z2_200_0.sqn(50).mul(&z2_50_0);
        (z2_250_0, z11)
    }
    /// x^(p-2) = x^(2^255 - 21); maps 0 to 0.
    pub fn inv(&self) -> Fp {
        let (t, z11) = self.pow_2_250_1();
        t.sqn(5).mul(&z11)
    }
    /// x^(p-2) by plain square-and-multiply (reference for the self-test).
    pub fn inv_slow(&self) -> Fp {
        self.pow(&p().sub(&U::from_u64(2)))
    }
    pub fn is_zero(&self) -> bool {
        self.0.is_zero()
    }
    /// "negative" = canonical representative is odd
    pub fn is_neg(&self) -> bool {
        self.0.bit(0)
    }
    pub fn abs(&self) -> Fp {
        if self.is_neg() {
            self.neg()
        } else {
            *self
        }
    }
    /// Euler criterion: is a non-zero square
    pub fn is_nonzero_square(&self) -> bool {
        !self.is_zero() && self.pow(&p().sub(&U::ONE).shr(1)) == Fp::ONE
    }
}

pub fn sqrt_m1() -> Fp {
    static C: OnceLock<Fp> = OnceLock::new();
    *C.get_or_init(|| {
        // 2^((p-1)/4) is a square root of -1; take the nonnegative one
        let r = Fp::from_u64(2).pow(&p().sub(&U::ONE).shr(2));
        assert!(r.sq() == Fp::ONE.neg());
        r.abs()
    })
}

/// The documented four-case contract of `sqrt_ratio_i(u, v)`:
/// (1, +sqrt(u/v)) if v != 0 and u/v is square; (1, 0) if u == 0; (0, 0) if v == 0, u != 0;
/// (0, +sqrt(i*u/v)) if u/v is a non-zero non-square.  Computed from the definition.
pub fn sqrt_ratio_i(u: &Fp, v: &Fp) -> (bool, Fp) {
    if u.is_zero() {
        return (true, Fp::ZERO);
    }
    if v.is_zero() {
        return (false, Fp::ZERO);
    }
    let w = u.mul(&v.inv());
    let e = p().add(&U::from_u64(3)).shr(3);
    let r = w.pow(&e);
    if r.sq() == w {
        return (true, r.abs());
    }
    if r.sq() == w.neg() {
        let r2 = r.mul(&sqrt_m1());
        assert!(r2.sq() == w);
        return (true, r2.abs());
    }
    let w2 = sqrt_m1().mul(&w);
    let mut r = w2.pow(&e);
    if r.sq() != w2 {
        r = r.mul(&sqrt_m1());
    }
    assert!(r.sq() == w2, "i*u/v must be a square when u/v is not");
    (false, r.abs())
}

/// Square root, if any (nonnegative one).
pub fn sqrt(x: &Fp) -> Option<Fp> {
    let (ok, r) = sqrt_ratio_i(x, &Fp::ONE);
    if ok {
        Some(r)
    } else {
        None
    }
}

pub fn d() -> Fp {
    static C: OnceLock<Fp> = OnceLock::new();
    *C.get_or_init(|| Fp::from_u64(121665).neg().mul(&Fp::from_u64(121666).inv()))
}
