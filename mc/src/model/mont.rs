//! RFC 7748 X25519, transcribed from the RFC pseudocode; shares nothing with the Edwards model.

use super::ed::Pt;
use super::fp::{p, Fp};
use super::nat::U;

/// The Montgomery ladder of RFC 7748 section 5 over the `bits` low bits of k (MSB first).
pub fn ladder(k: &U, bits: usize, u: &Fp) -> Fp {
    let a24 = Fp::from_u64(121665);
    let x1 = *u;
    let (mut x2, mut z2, mut x3, mut z3) = (Fp::ONE, Fp::ZERO, x1, Fp::ONE);
    let mut swap = false;
    for t in (0..bits).rev() {
        let kt = k.bit(t);
        swap ^= kt;
        if swap {
            std::mem::swap(&mut x2, &mut x3);
            std::mem::swap(&mut z2, &mut z3);
        }
        swap = kt;
        let a = x2.add(&z2);
        let aa = a.sq();
        let b = x2.sub(&z2);
        let bb = b.sq();
        let e = aa.sub(&bb);
        let c = x3.add(&z3);
        let dd = x3.sub(&z3);
        let da = dd.mul(&a);
        let cb = c.mul(&b);
        x3 = da.add(&cb).sq();
        z3 = x1.mul(&da.sub(&cb).sq());
        x2 = aa.mul(&bb);
        z2 = e.mul(&aa.add(&a24.mul(&e)));
    }
    if swap {
        std::mem::swap(&mut x2, &mut x3);
        std::mem::swap(&mut z2, &mut z3);
    }
    x2.mul(&z2.inv())
}

/// The same ladder over an explicit big-endian bit string (for `mul_bits_be`).
pub fn ladder_bits_be(bits: &[bool], u: &Fp) -> Fp {
    // value of the bit string, which may exceed 512 bits: run the ladder directly on bits
    let a24 = Fp::from_u64(121665);
    let x1 = *u;
    let (mut x2, mut z2, mut x3, mut z3) = (Fp::ONE, Fp::ZERO, x1, Fp::ONE);
    let mut swap = false;
    for &kt in bits {
        swap ^= kt;
        if swap {
            std::mem::swap(&mut x2, &mut x3);
            std::mem::swap(&mut z2, &mut z3);
        }
        swap = kt;
        let a = x2.add(&z2);
        let aa = a.sq();
        let b = x2.sub(&z2);
        let bb = b.sq();
        let e = aa.sub(&bb);
        let c = x3.add(&z3);
        let dd = x3.sub(&z3);
        let da = dd.mul(&a);
        let cb = c.mul(&b);
        x3 = da.add(&cb).sq();
        z3 = x1.mul(&da.sub(&cb).sq());
        x2 = aa.mul(&bb);
        z2 = e.mul(&aa.add(&a24.mul(&e)));
    }
    if swap {
        std::mem::swap(&mut x2, &mut x3);
        std::mem::swap(&mut z2, &mut z3);
    }
    x2.mul(&z2.inv())
}

pub fn clamp(k: &[u8; 32]) -> [u8; 32] {
    let mut k = *k;
    k[0] &= 248;
    k[31] &= 127;
    k[31] |= 64;
    k
}

/// X25519(k, u) of RFC 7748 section 5.
pub fn x25519(k: &[u8; 32], u: &[u8; 32]) -> [u8; 32] {
    let kk = U::from_le(&clamp(k));
    ladder(&kk, 255, &Fp::from_bytes(u)).to_bytes()
}

/// Birational map Montgomery u -> Edwards (x, y) with the given sign for x:
/// y = (u-1)/(u+1); None for u = -1 and for u not on the curve (twist).
pub fn to_edwards(u: &Fp, sign: bool) -> Option<Pt> {
    if *u == Fp::ONE.neg() {
        return None;
    }
    let y = u.sub(&Fp::ONE).mul(&u.add(&Fp::ONE).inv());
    let mut b = y.to_bytes();
    b[31] |= (sign as u8) << 7;
    super::ed::decompress(&b)
}

/// Is u the x-coordinate of a point of the Montgomery curve v^2 = u^3 + A u^2 + u ?
pub fn on_curve(u: &Fp) -> bool {
    let a = Fp::from_u64(486662);
    let rhs = u.sq().mul(u).add(&a.mul(&u.sq())).add(u);
    rhs.is_zero() || rhs.is_nonzero_square()
}

pub fn _p() -> U {
    p()
}
