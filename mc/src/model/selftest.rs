//! The model checks itself against published vectors and defining equations before it is
//! used as an oracle.  Any failure is a machinery error (exit 2), never a verdict.

use super::ed::{self, Pt};
use super::eddsa;
use super::fp::{self, Fp};
use super::mont;
use super::nat::{hex, unhex, U};
use super::ris;
use super::zl::{l, Zl};

/// Encoding of the crate's documented `EIGHT_TORSION[1]` (data; the model verifies that it is
/// a point of order exactly 8 and derives the other seven from it).
pub const EIGHT_TORSION_1_ENC: [u8; 32] = [
    0xc7, 0x17, 0x6a, 0x70, 0x3d, 0x4d, 0xd8, 0x4f, 0xba, 0x3c, 0x0b, 0x76, 0x0d, 0x10, 0x67, 0x0f,
    0x2a, 0x20, 0x53, 0xfa, 0x2c, 0x39, 0xcc, 0xc6, 0x4e, 0xc7, 0xfd, 0x77, 0x92, 0xac, 0x03, 0x7a,
];

const RIS_MULT: &str = include_str!("../../data/ristretto_multiples.txt");
const RIS_ELL: &str = include_str!("../../data/ristretto_elligator.txt");
const ED_VEC: &str = include_str!("../../data/ed25519_sign_input.txt");

fn a32(v: &[u8]) -> [u8; 32] {
    let mut a = [0u8; 32];
    a.copy_from_slice(v);
    a
}

pub fn run() -> usize {
    let mut n = 0usize;
    macro_rules! ck {
        ($c:expr, $($m:tt)*) => {{ n += 1; if !($c) { panic!("model self-test failed: {}", format!($($m)*)); } }};
    }
    // --- naturals
    let pats: Vec<U> = {
        let mut v = vec![U::ZERO, U::ONE, U::from_u64(u64::MAX)];
        for k in [1usize, 63, 64, 65, 127, 128, 200, 255, 256, 257, 300, 511] {
            v.push(U::pow2(k));
            v.push(U::pow2(k).sub(&U::ONE));
        }
        v.push(U([0x0123456789abcdef, 0xfedcba9876543210, 0xdeadbeefcafebabe, 0x0f1e2d3c4b5a6978, 1, 2, 3, 0x7fff_ffff_ffff_ffff]));
        v
    };
    for a in &pats {
        for m in [fp::p(), l(), U::from_u64(19), U::pow2(130).add(&U::from_u64(7))] {
            let (q, r) = a.divrem(&m);
            ck!(r < m && q.mul(&m).add(&r) == *a, "divrem {:?} {:?}", a, m);
        }
        ck!(fp::reduce(a) == a.rem(&fp::p()), "fold-reduce vs rem {:?}", a);
        ck!(super::zl::reduce(a) == a.rem(&l()), "zl fold-reduce vs rem {:?}", a);
        if a.bits() <= 256 {
            for b in &pats {
                if b.bits() <= 256 {
                    let prod = a.mul(b);
                    ck!(super::zl::reduce(&prod) == prod.rem(&l()), "zl fold-reduce vs rem (product)");
                    ck!(fp::reduce(&prod) == prod.rem(&fp::p()), "fp fold-reduce vs rem (product)");
                }
            }
        }
        ck!(a.shl(0) == *a && a.shr(0) == *a, "shift 0");
        if a.bits() <= 500 {
            ck!(a.shl(11).shr(11) == *a, "shl/shr");
        }
    }
    ck!(U::from_dec("340282366920938463463374607431768211456") == U::pow2(128), "from_dec");
    // --- p and l are (Fermat-)prime, constants
    ck!(Fp::from_u64(2).pow(&fp::p().sub(&U::ONE)) == Fp::ONE, "2^(p-1)");
    ck!(Zl::from_u64(2).pow(&l().sub(&U::ONE)) == Zl::ONE, "2^(l-1)");
    ck!(Zl::from_u64(3).pow(&l().sub(&U::ONE)) == Zl::ONE, "3^(l-1)");
    ck!(l().hex() == "1000000000000000000000000000000014def9dea2f79cd65812631a5cf5d3ed", "l hex {}", l().hex());
    ck!(fp::sqrt_m1().sq() == Fp::ONE.neg() && !fp::sqrt_m1().is_neg(), "sqrt(-1)");
    ck!(fp::d().mul(&Fp::from_u64(121666)) == Fp::from_u64(121665).neg(), "d");
    ck!(hex(&fp::d().to_bytes()) == "a3785913ca4deb75abd841414d0a700098e879777940c78c73fe6f2bee6c0352", "d bytes {}", hex(&fp::d().to_bytes()));
    // --- field: inverse, sqrt_ratio contract
    for v in [1u64, 2, 3, 4, 5, 7, 19, 121665] {
        let x = Fp::from_u64(v);
        ck!(x.mul(&x.inv()) == Fp::ONE, "inv {}", v);
        ck!(x.inv() == x.inv_slow(), "inv chain vs pow {}", v);
        for w in [1u64, 2, 3, 5] {
            let y = Fp::from_u64(w);
            let (ok, r) = fp::sqrt_ratio_i(&x, &y);
            ck!(!r.is_neg(), "sqrt_ratio nonneg");
            if ok {
                ck!(r.sq().mul(&y) == x, "sqrt_ratio square case");
            } else {
                ck!(r.sq().mul(&y) == x.mul(&fp::sqrt_m1()), "sqrt_ratio nonsquare case");
            }
            ck!(ok == x.mul(&y.inv()).is_nonzero_square(), "sqrt_ratio vs Euler");
        }
    }
    ck!(Fp::ZERO.inv() == Fp::ZERO, "inv(0)=0");
    for a in &pats {
        let x = Fp::new(a);
        ck!(x.inv() == x.inv_slow(), "inv chain vs pow (pattern)");
    }
    ck!(fp::sqrt_ratio_i(&Fp::ZERO, &Fp::ZERO) == (true, Fp::ZERO), "0/0");
    ck!(fp::sqrt_ratio_i(&Fp::ONE, &Fp::ZERO) == (false, Fp::ZERO), "1/0");
    // --- Edwards
    let b = ed::basepoint();
    ck!(b.is_on_curve(), "B on curve");
    ck!(hex(&b.compress()) == "5866666666666666666666666666666666666666666666666666666666666666", "B encoding");
    ck!(b.mul_def(&l()).is_identity(), "[l]B = 0 (definition)");
    ck!(b.mul(&l()).is_identity(), "[l]B = 0 (fast)");
    ck!(!b.mul(&U::from_u64(8)).is_identity(), "B not small order");
    for k in [U::ZERO, U::ONE, U::from_u64(2), U::from_u64(0xdeadbeef), l().sub(&U::ONE), U::pow2(255).sub(&U::from_u64(19)), U::pow2(256).sub(&U::ONE)] {
        let a = b.mul_def(&k);
        ck!(a == b.mul(&k), "mul vs def {:?}", k);
        ck!(a == ed::mul_base(&k), "mul_base vs def {:?}", k);
        ck!(a.is_on_curve(), "on curve");
        ck!(ed::decompress(&a.compress()) == Some(a), "compress/decompress");
    }
    let t = ed::torsion();
    let orders = [1, 8, 4, 8, 2, 8, 4, 8];
    for j in 0..8 {
        ck!(t[j].is_on_curve(), "T_j on curve");
        let mut ord = 1;
        let mut q = t[j];
        while !q.is_identity() {
            q = q.add(&t[j]);
            ord += 1;
        }
        ck!(ord == orders[j], "order of T_{} = {}", j, ord);
        for i in 0..j {
            ck!(t[i] != t[j], "T distinct");
        }
        // torsion point with prime-order point: P + T_j has the right predicates
        let q = b.add(&t[j]);
        ck!(q.is_torsion_free() == (j == 0), "torsion-free predicate");
        ck!(!q.is_small_order(), "small order predicate");
        ck!(t[j].is_small_order(), "T_j small order");
    }
    ck!(t[4] == Pt { x: Fp::ZERO, y: Fp::ONE.neg() }, "T_4 = (0,-1)");
    ck!(b.to_montgomery_u() == Fp::from_u64(9), "B -> u=9");
    // --- RFC 7748
    let v7748 = [
        ("a546e36bf0527c9d3b16154b82465edd62144c0ac1fc5a18506a2244ba449ac4", "e6db6867583030db3594c1a424b15f7c726624ec26b3353b10a903a6d0ab1c4c", "c3da55379de9c6908e94ea4df28d084f32eccf03491c71f754b4075577a28552"),
        ("4b66e9d4d1b4673c5ad22691957d6af5c11b6421e0ea01d42ca4169e7918ba0d", "e5210f12786811d3f4b7959d0538ae2c31dbe7106fc03c3efc4cd549c715a493", "95cbde9476e8907d7aade45cb4b873f88b595a68799fa152e6f8f7647aac7957"),
        ("0900000000000000000000000000000000000000000000000000000000000000", "0900000000000000000000000000000000000000000000000000000000000000", "422c8e7a6227d7bca1350b3e2bb7279f7897b87bb6854b783c60e80311ae3079"),
        ("77076d0a7318a57d3c16c17251b26645df4c2f87ebc0992ab177fba51db92c2a", "0900000000000000000000000000000000000000000000000000000000000000", "8520f0098930a754748b7ddcb43ef75a0dbf3a0d26381af4eba4a98eaa9b4e6a"),
        ("5dab087e624a8a4b79e17f8b83800ee66f3bb1292618b6fd1c2f8b27ff88e0eb", "0900000000000000000000000000000000000000000000000000000000000000", "de9edb7d7b7dc1b4d35b61c2ece435373f8343c85b78674dadfc7e146f882b4f"),
        ("77076d0a7318a57d3c16c17251b26645df4c2f87ebc0992ab177fba51db92c2a", "de9edb7d7b7dc1b4d35b61c2ece435373f8343c85b78674dadfc7e146f882b4f", "4a5d9d5ba4ce2de1728e3bf480350f25e07e21c947d19e3376f09b3c1e161742"),
    ];
    for (k, u, r) in v7748 {
        let got = mont::x25519(&a32(&unhex(k)), &a32(&unhex(u)));
        ck!(hex(&got) == r, "RFC 7748 vector k={} got {}", k, hex(&got));
    }
    // ladder vs Edwards: x25519(k, 9) = to_montgomery(clamp(k)*B)
    {
        let k = a32(&unhex("77076d0a7318a57d3c16c17251b26645df4c2f87ebc0992ab177fba51db92c2a"));
        let kk = U::from_le(&mont::clamp(&k));
        ck!(ed::mul_base(&kk.rem(&l())).to_montgomery_u().to_bytes() == mont::x25519(&k, &Fp::from_u64(9).to_bytes()), "ladder vs edwards");
    }
    // --- RFC 8032 vectors (from ed25519-dalek/TESTVECTORS, sign.input format)
    let mut nvec = 0;
    for line in ED_VEC.lines() {
        let f: Vec<&str> = line.split(':').collect();
        if f.len() < 4 {
            continue;
        }
        let sk = unhex(f[0]);
        let pk = a32(&unhex(f[1]));
        let msg = unhex(f[2]);
        let sigmsg = unhex(f[3]);
        let seed = a32(&sk[..32]);
        let key = eddsa::keygen(&seed);
        ck!(key.public == pk, "RFC 8032 public key, vector {}", nvec);
        let sig = eddsa::sign(&seed, &msg, None);
        ck!(sig[..] == sigmsg[..64], "RFC 8032 signature, vector {}", nvec);
        ck!(eddsa::verify(&pk, &msg, &sig, None, true, false).is_ok(), "verify own signature");
        let mut bad = sig;
        bad[3] ^= 1;
        ck!(eddsa::verify(&pk, &msg, &bad, None, false, false).is_err(), "reject corrupted");
        nvec += 1;
    }
    ck!(nvec >= 40, "enough RFC 8032 vectors ({})", nvec);
    // Ed25519ph: RFC 8032 section 7.3 test vector (abc)
    {
        let seed = a32(&unhex("833fe62409237b9d62ec77587520911e9a759cec1d19755b7da901b96dca3d42"));
        let key = eddsa::keygen(&seed);
        ck!(hex(&key.public) == "ec172b93ad5e563bf4932c70e1245034c35467ef2efd4d64ebf819683467e2bf", "ph public");
        let sig = eddsa::sign(&seed, b"abc", Some(b""));
        ck!(hex(&sig) == "98a70222f0b8121aa9d30f813d683f809e462b469c7ff87639499bb94e6dae4131f85042463c2a355a2003d062adf5aaa10b8c61e636062aaad11c2a26083406", "ph signature {}", hex(&sig));
        let ph = eddsa::sha512(&[b"abc"]);
        ck!(eddsa::verify(&key.public, &ph, &sig, Some(b""), true, false).is_ok(), "ph verify");
        ck!(eddsa::verify(&key.public, &ph, &sig, Some(b"x"), false, false).is_err(), "ph verify other ctx");
    }
    // --- ristretto255
    let _ = ris::consts();
    for (i, line) in RIS_MULT.lines().enumerate() {
        let want = a32(&unhex(line));
        let pt = ed::mul_base(&U::from_u64(i as u64));
        ck!(ris::encode(&pt) == want, "ristretto multiple {}", i);
        // all four coset representatives encode identically
        for j in [2usize, 4, 6] {
            ck!(ris::encode(&pt.add(&t[j])) == want, "coset representative {} of multiple {}", j, i);
        }
        let dec = ris::decode(&want);
        ck!(dec.is_some() && ris::equal(&dec.unwrap(), &pt), "ristretto decode {}", i);
    }
    for line in RIS_ELL.lines() {
        let f: Vec<&str> = line.split(' ').collect();
        let pt = ris::map(&a32(&unhex(f[0])));
        ck!(pt.is_on_curve(), "elligator image on curve");
        ck!(hex(&ris::encode(&pt)) == f[1], "elligator image");
    }
    // RFC 9496 A.2 bad encodings (a few per class)
    for bad in [
        "00ffffffffffffffffffffffffffffffffffffffffffffffffffffffffffffff", // non-canonical
        "f3ffffffffffffffffffffffffffffffffffffffffffffffffffffffffffff7f",
        "0100000000000000000000000000000000000000000000000000000000000000", // negative
        "26948d35ca62e643e26a83177332e6b6afeb9d08e4268b650f1f5bbd8d81d371", // non-square x^2
        "ecffffffffffffffffffffffffffffffffffffffffffffffffffffffffffff7f", // s = -1: y = 0
    ] {
        ck!(ris::decode(&a32(&unhex(bad))).is_none(), "bad ristretto encoding {}", bad);
    }
    n
}
