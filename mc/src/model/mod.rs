pub mod ed;
pub mod eddsa;
pub mod fp;
pub mod mont;
pub mod nat;
pub mod ris;
pub mod selftest;
pub mod zl;
