//! ristretto255 per RFC 9496 section 4, transcribed from the RFC text.

use super::ed::Pt;
use super::fp::{d, sqrt_m1, sqrt_ratio_i, Fp};
use super::nat::U;
use std::sync::OnceLock;

pub struct Consts {
    pub sqrt_ad_minus_one: Fp,
    pub invsqrt_a_minus_d: Fp,
    pub one_minus_d_sq: Fp,
    pub d_minus_one_sq: Fp,
}

pub fn consts() -> &'static Consts {
    static C: OnceLock<Consts> = OnceLock::new();
    C.get_or_init(|| {
        // RFC 9496 section 4.1 decimal constants, verbatim.
        let sqrt_ad_minus_one = Fp(U::from_dec(
            "25063068953384623474111414158702152701244531502492656460079210482610430750235",
        ));
        let invsqrt_a_minus_d = Fp(U::from_dec(
            "54469307008909316920995813868745141605393597292927456921205312896311721017578",
        ));
        let one_minus_d_sq = Fp(U::from_dec(
            "1159843021668779879193775521855586647937357759715417654439879720876111806838",
        ));
        let d_minus_one_sq = Fp(U::from_dec(
            "40440834346308536858101042469323190826248399146238708352240133220865137265952",
        ));
        // defining equations (a = -1)
        let dd = d();
        assert!(sqrt_ad_minus_one.sq() == dd.neg().sub(&Fp::ONE));
        assert!(invsqrt_a_minus_d.sq().mul(&Fp::ONE.neg().sub(&dd)) == Fp::ONE);
        assert!(one_minus_d_sq == Fp::ONE.sub(&dd.sq()));
        assert!(d_minus_one_sq == dd.sub(&Fp::ONE).sq());
        Consts {
            sqrt_ad_minus_one,
            invsqrt_a_minus_d,
            one_minus_d_sq,
            d_minus_one_sq,
        }
    })
}

/// RFC 9496 4.3.1 Decode.  Returns the Edwards representative (x, y).
pub fn decode(b: &[u8; 32]) -> Option<Pt> {
    let s_int = U::from_le(b);
    if s_int >= super::fp::p() {
        return None; // non-canonical (covers bit 255 set)
    }
    let s = Fp(s_int);
    if s.is_neg() {
        return None;
    }
    let ss = s.sq();
    let u1 = Fp::ONE.sub(&ss);
    let u2 = Fp::ONE.add(&ss);
    let u2s = u2.sq();
    let v = d().mul(&u1.sq()).neg().sub(&u2s);
    let (ok, inv) = sqrt_ratio_i(&Fp::ONE, &v.mul(&u2s));
    let den_x = inv.mul(&u2);
    let den_y = inv.mul(&den_x).mul(&v);
    let x = Fp::from_u64(2).mul(&s).mul(&den_x).abs();
    let y = u1.mul(&den_y);
    let t = x.mul(&y);
    if !ok || t.is_neg() || y.is_zero() {
        return None;
    }
    Some(Pt { x, y })
}

/// RFC 9496 4.3.2 Encode of the coset of the Edwards point (x0, y0) (z0 = 1, t0 = x0*y0).
pub fn encode(p: &Pt) -> [u8; 32] {
    let c = consts();
    let (x0, y0) = (p.x, p.y);
    let z0 = Fp::ONE;
    let t0 = x0.mul(&y0);
    let u1 = z0.add(&y0).mul(&z0.sub(&y0));
    let u2 = x0.mul(&y0);
    let (_, invsqrt) = sqrt_ratio_i(&Fp::ONE, &u1.mul(&u2.sq()));
    let den1 = invsqrt.mul(&u1);
    let den2 = invsqrt.mul(&u2);
    let z_inv = den1.mul(&den2).mul(&t0);
    let ix0 = x0.mul(&sqrt_m1());
    let iy0 = y0.mul(&sqrt_m1());
    let enchanted = den1.mul(&c.invsqrt_a_minus_d);
    let rotate = t0.mul(&z_inv).is_neg();
    let (x, mut y, den_inv) = if rotate {
        (iy0, ix0, enchanted)
    } else {
        (x0, y0, den2)
    };
    if x.mul(&z_inv).is_neg() {
        y = y.neg();
    }
    den_inv.mul(&z0.sub(&y)).abs().to_bytes()
}

/// RFC 9496 4.3.4 MAP on 32 bytes (bit 255 masked, reduced mod p).
pub fn map(t: &[u8; 32]) -> Pt {
    let c = consts();
    let r0 = Fp::from_bytes(t);
    map_fe(&r0, c)
}

pub fn map_fe(r0: &Fp, c: &Consts) -> Pt {
    let r = sqrt_m1().mul(&r0.sq());
    let u = r.add(&Fp::ONE).mul(&c.one_minus_d_sq);
    let v = Fp::ONE.neg().sub(&r.mul(&d())).mul(&r.add(&d()));
    let (was_square, mut s) = sqrt_ratio_i(&u, &v);
    let s_prime = s.mul(r0).abs().neg();
    let mut cc = Fp::ONE.neg();
    if !was_square {
        s = s_prime;
        cc = r;
    }
    let n = cc.mul(&r.sub(&Fp::ONE)).mul(&c.d_minus_one_sq).sub(&v);
    let w0 = Fp::from_u64(2).mul(&s).mul(&v);
    let w1 = n.mul(&c.sqrt_ad_minus_one);
    let w2 = Fp::ONE.sub(&s.sq());
    let w3 = Fp::ONE.add(&s.sq());
    let (xx, yy, zz) = (w0.mul(&w3), w2.mul(&w1), w1.mul(&w3));
    let zi = zz.inv();
    Pt {
        x: xx.mul(&zi),
        y: yy.mul(&zi),
    }
}

/// One-way map on 64 bytes: MAP(b[0..32]) + MAP(b[32..64]).
pub fn one_way_map(b: &[u8; 64]) -> Pt {
    let mut a = [0u8; 32];
    let mut bb = [0u8; 32];
    a.copy_from_slice(&b[..32]);
    bb.copy_from_slice(&b[32..]);
    map(&a).add(&map(&bb))
}

/// Coset equality: P ~ Q iff P - Q in E[4].
pub fn equal(p: &Pt, q: &Pt) -> bool {
    // RFC 9496 4.3.3: x1*y2 == y1*x2 or y1*y2 == x1*x2
    p.x.mul(&q.y) == p.y.mul(&q.x) || p.y.mul(&q.y) == p.x.mul(&q.x)
}
