//! Deterministic, structured alphabets (no RNG), ordered simplest-first.

use crate::model::fp::{self, Fp};
use crate::model::nat::U;
use crate::model::zl::l;

fn dedup(v: Vec<U>) -> Vec<U> {
    let mut seen = std::collections::HashSet::new();
    v.into_iter().filter(|x| seen.insert(*x)).collect()
}

/// A-FE: field *integers* below 2^255 (some are >= p, i.e. non-canonical).
pub fn fe_ints() -> Vec<U> {
    let p = fp::p();
    let one = U::ONE;
    let mut v = vec![
        U::ZERO,
        one,
        U::from_u64(2),
        p.sub(&U::from_u64(2)),
        p.sub(&one),
        p,
        p.add(&one),
        p.add(&U::from_u64(18)),
        U::pow2(255).sub(&one),
        U::pow2(255).sub(&U::from_u64(20)),
        U::pow2(254),
        p.sub(&one).shr(1),
        p.add(&one).shr(1),
        fp::sqrt_m1().0,
        fp::d().0,
        fp::d().add(&fp::d()).0,
        U::from_u64(19),
        U::from_u64(9),
        U::from_u64(486662),
        U::from_u64(121665),
        U::from_u64(121666),
    ];
    // limb-boundary and ripple values for both radices
    for i in 1..5 {
        v.push(U::pow2(51 * i));
        v.push(U::pow2(51 * i).sub(&one));
    }
    for pos in [26usize, 51, 77, 102, 128, 153, 179, 204, 230] {
        v.push(U::pow2(pos));
        v.push(U::pow2(pos).sub(&one));
        v.push(U::pow2(pos).add(&one));
    }
    // values whose canonical reduction carries through every limb
    for j in [0usize, 1, 4, 5, 25, 26, 50, 51, 52, 127, 128, 200, 253] {
        let x = p.sub(&one).add(&U::pow2(j));
        if x.bits() <= 255 {
            v.push(x);
        }
        v.push(p.sub(&U::pow2(j)));
    }
    // byte patterns
    for b in [0x55u8, 0xaa, 0xff, 0x80, 0x7f, 0x01] {
        let mut bytes = [b; 32];
        bytes[31] &= 0x7f;
        v.push(U::from_le(&bytes));
    }
    // a few squares / non-squares (computed by the model)
    for k in [2u64, 3, 5, 7, 11] {
        let x = Fp::from_u64(k);
        v.push(x.sq().0);
        v.push(x.sq().mul(&fp::sqrt_m1()).0);
        v.push(x.inv().0);
    }
    dedup(v)
}

/// 32-byte strings for field decoding: A-FE with bit 255 both ways.
pub fn fe_bytes() -> Vec<[u8; 32]> {
    let mut out = Vec::new();
    for x in fe_ints() {
        let b = x.to_le32();
        out.push(b);
        let mut c = b;
        c[31] |= 0x80;
        out.push(c);
    }
    out
}

/// A-SC: scalar integers below 2^256.
pub fn sc_ints() -> Vec<U> {
    let l = l();
    let one = U::ONE;
    let mut v = vec![
        U::ZERO,
        one,
        U::from_u64(2),
        l.sub(&U::from_u64(2)),
        l.sub(&one),
        l,
        l.add(&one),
        l.shl(1).sub(&one),
        l.shl(1),
        l.shl(1).add(&one),
        l.shl(3).sub(&one),
        l.shl(3).add(&one),
        U::pow2(252),
        U::pow2(252).sub(&one),
        U::pow2(252).add(&one),
        U::pow2(253).sub(&one),
        U::pow2(253),
        U::pow2(254),
        U::pow2(255).sub(&one),
        U::pow2(255),
        U::pow2(256).sub(&one),
        U::pow2(260).rem(&l),
        U::pow2(261).rem(&l),
        U::pow2(260).rem(&l).add(&one),
        U::pow2(260).rem(&l).sub(&one),
        U::pow2(260).rem(&l).mul(&U::pow2(260).rem(&l)).rem(&l),
        l.sub(&one).shr(1),
        l.add(&one).shr(1),
        U::from_u64(8),
        U::from_u64(u64::MAX),
        U::from_u128(u128::MAX),
    ];
    // all-ones / zero limb patterns, 52-bit limbs (2^5) and 29-bit limbs (subset)
    for pat in 0u32..32 {
        let mut x = U::ZERO;
        for i in 0..5 {
            if pat >> i & 1 == 1 {
                let w = if i == 4 { 48 } else { 52 };
                x = x.add(&U::pow2(w).sub(&one).shl(52 * i));
            }
        }
        v.push(x);
    }
    for pat in [0b101010101u32, 0b010101010, 0b111000111, 0b000111000, 0b100000001, 0b011111110] {
        let mut x = U::ZERO;
        for i in 0..9 {
            if pat >> i & 1 == 1 {
                let w = if i == 8 { 24 } else { 29 };
                x = x.add(&U::pow2(w).sub(&one).shl(29 * i));
            }
        }
        v.push(x);
    }
    for b in [0x55u8, 0xaa, 0x80, 0x7f, 0x01, 0x88, 0x77, 0xf8] {
        v.push(U::from_le(&[b; 32]));
    }
    dedup(v)
}

/// The simplest `n` of A-SC reduced mod l (distinct).
pub fn sc_reduced(n: usize) -> Vec<U> {
    let l = l();
    let v = dedup(sc_ints().into_iter().map(|x| x.rem(&l)).collect());
    v.into_iter().take(n).collect()
}

/// Lengths around every threshold.
pub fn msg_lens() -> Vec<usize> {
    vec![0, 1, 2, 31, 32, 33, 63, 64, 65, 110, 111, 112, 113, 127, 128, 129, 255, 256, 1023]
}

pub fn msg_of_len(n: usize, salt: u8) -> Vec<u8> {
    (0..n).map(|i| (i as u8).wrapping_mul(31).wrapping_add(salt)).collect()
}

// ------------------------------------------------------------------------------------------
// digit-transducer alphabets (scalars below 2^255, possibly >= l)
// ------------------------------------------------------------------------------------------

fn from_windows(w: usize, windows: &[u64]) -> U {
    let mut x = U::ZERO;
    for (i, v) in windows.iter().enumerate() {
        if w * i >= 255 {
            break;
        }
        let room = (255 - w * i).min(w);
        let v = v & ((1u64 << room) - 1);
        x = x.add(&U::from_u64(v).shl(w * i));
    }
    x
}

/// A-DIGITw: for every (window index, carry-in, window value, background) a scalar whose
/// radix-2^w recoding passes through that transducer state.  `full` = all window values,
/// otherwise the boundary ones.
pub fn digit_scalars(w: usize, backgrounds: &[u64], full: bool) -> Vec<U> {
    let n = (255 + w - 1) / w;
    let half = 1u64 << (w - 1);
    let mask = (1u64 << w) - 1;
    let vals: Vec<u64> = if full {
        (0..=mask).collect()
    } else {
        let mut v = vec![0, 1, half - 1, half, half + 1, mask - 1, mask];
        v.retain(|x| *x <= mask);
        v.dedup();
        v
    };
    let mut out = Vec::new();
    for &bg in backgrounds {
        for i in 0..n {
            for carry in [false, true] {
                if carry && i == 0 {
                    continue;
                }
                for &v in &vals {
                    let mut win = vec![bg & mask; n];
                    win[i] = v;
                    if i > 0 {
                        // previous window >= half produces a carry into window i, < half does not
                        win[i - 1] = if carry { half } else { 0 };
                    }
                    out.push(from_windows(w, &win));
                }
            }
        }
    }
    dedup(out)
}

/// A-NAF(w): every start position x window value x background, below 2^255.
pub fn naf_scalars(w: usize, positions: &[usize], full: bool) -> Vec<U> {
    let mask = (1u64 << w) - 1;
    let vals: Vec<u64> = if full { (1..=mask).collect() } else { vec![1, 3, (1 << (w - 1)) - 1, (1 << (w - 1)) + 1, mask] };
    let mut out = Vec::new();
    let ones = U::pow2(255).sub(&U::ONE);
    for &pos in positions {
        for &v in &vals {
            let win = U::from_u64(v).shl(pos).low_bits(255);
            out.push(win);
            // background all ones outside the window
            let hole = U::from_u64(mask).shl(pos).low_bits(255);
            out.push(ones.sub(&hole).add(&win));
        }
    }
    dedup(out)
}
