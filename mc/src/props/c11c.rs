//! C11 layer (c) — bound propagation along every formula of the AVX2 point arithmetic under an
//! adversarial reduction environment (hook H7, "saturation tape").
//!
//! Every reducing kernel is a choice point whose answer is, per lane, either zero or the
//! largest vector its documented post-condition allows.  Between two reductions all
//! operations are limb-wise affine with fixed signs, so limb extremes are attained on these
//! vertices.  The entry monitors (hook H6) check each kernel's documented pre-condition on
//! the actual lanes; outputs are checked against the invariant of the output type.  Values
//! are garbage under saturation — only magnitude failures count.

use crate::ev::{guarded, Ctx};
use serde_json::json;

#[allow(unused_variables)]
pub fn run(ctx: &Ctx) {
    crate::with_avx2!({
        use curve25519_dalek::verif::avx2 as v;
        use curve25519_dalek::verif::{monitor, tape};
        if !v::available() {
            ctx.note("AVX2 not available: saturation tapes not run");
            return;
        }
        type Raw = v::Raw;
        let quick = ctx.quick();
        // the saturated vector for lane pattern c at bound b (same construction as the tape)
        let sat = |c: u8, bs: &[f64; 4]| -> Raw {
            let mx = |w: u32, b: f64| -> u32 {
                let x = ((1u64 << w) as f64) * b.exp2();
                (if x.fract() == 0.0 { x - 1.0 } else { x.floor() }) as u32
            };
            let mut r = [[0u32; 10]; 4];
            for k in 0..4 {
                if c >> k & 1 == 1 {
                    for i in 0..10 {
                        r[k][i] = if i % 2 == 0 { mx(26, bs[k]) } else { mx(25, bs[k]) };
                    }
                }
            }
            r
        };
        let within = |r: &Raw, b: f64| -> bool {
            r.iter().all(|l| (0..10).all(|i| (l[i] as f64) < ((1u64 << (if i % 2 == 0 { 26 } else { 25 })) as f64) * b.exp2()))
        };
        // documented invariant of ExtendedPoint: b < 0.007 in every lane
        const E: [f64; 4] = [0.007; 4];
        // CachedPoint: "b < 1.0".  Structurally lanes A, B, C always come out of a reducing
        // multiplication by constants (b < 0.007); lane D is either a reducing negation
        // (fresh point) or one lazy negation of that (negated point, b < 1.0).  `Neg`/`Sub`
        // are only ever applied to fresh points (the H6 monitors on real values confirm that
        // negate_lazy never sees more than b = 0.0002 there), so their input class is the
        // fresh one; `Add` accepts both.  (First version saturated all four lanes of every
        // CachedPoint input at b < 1.0 and flagged negate_lazy's b < 0.999 inside Neg/Sub:
        // the check demanded more than the code's contract.)
        const CF: [f64; 4] = [0.007; 4];
        const CN: [f64; 4] = [0.007, 0.007, 0.007, 1.0];
        const COUT: f64 = 1.0;
        // a formula: name, input bounds, output bound, body
        struct Formula<'a> {
            name: &'static str,
            ins: Vec<[f64; 4]>,
            out: f64,
            body: Box<dyn Fn(&[Raw]) -> Raw + Sync + 'a>,
        }
        let formulas: Vec<Formula> = vec![
            Formula { name: "ExtendedPoint::double", ins: vec![E], out: 0.007, body: Box::new(|i| v::extended_double(&i[0])) },
            Formula { name: "ExtendedPoint + CachedPoint(negated)", ins: vec![E, CN], out: 0.007, body: Box::new(|i| v::extended_add_cached(&i[0], &i[1])) },
            Formula { name: "ExtendedPoint - CachedPoint(fresh)", ins: vec![E, CF], out: 0.007, body: Box::new(|i| v::extended_sub_cached(&i[0], &i[1])) },
            Formula { name: "CachedPoint::from(ExtendedPoint)", ins: vec![E], out: 0.007, body: Box::new(|i| v::cached_from_extended(&i[0])) },
            Formula { name: "-CachedPoint(fresh)", ins: vec![CF], out: COUT, body: Box::new(|i| v::cached_neg(&i[0])) },
            Formula { name: "ExtendedPoint::mul_by_pow_2(4)", ins: vec![E], out: 0.007, body: Box::new(|i| v::extended_mul_by_pow_2(&i[0], 4)) },
            Formula { name: "double; to_cached; add", ins: vec![E], out: 0.007, body: Box::new(|i| { let d = v::extended_double(&i[0]); let c = v::cached_from_extended(&d); v::extended_add_cached(&d, &c) }) },
        ];
        let is_magnitude_failure = |msg: &str| msg.contains("verif monitor") || msg.contains("overflow") || msg.contains("attempt to");
        let mut total_tapes = 0u64;
        for f in &formulas {
            // number of choice points with the all-MAX default
            let inputs0: Vec<Raw> = f.ins.iter().map(|b| sat(0b1111, b)).collect();
            monitor::enforce(false);
            tape::install(&[], 0b1111);
            let _ = guarded(|| (f.body)(&inputs0));
            let c = tape::uninstall();
            monitor::enforce(true);
            // tapes: all if 16^c is small, else default all-MAX with at most 2 deviations
            let mut tapes: Vec<Vec<u8>> = Vec::new();
            let exhaustive_tapes = c <= (if quick { 2 } else { 3 });
            if exhaustive_tapes {
                let n = 16usize.pow(c as u32);
                for t in 0..n {
                    tapes.push((0..c).map(|k| ((t >> (4 * k)) & 15) as u8).collect());
                }
            } else {
                tapes.push(vec![0b1111; c]);
                for p in 0..c {
                    for a in 0..15u8 {
                        let mut t = vec![0b1111u8; c];
                        t[p] = a;
                        tapes.push(t.clone());
                        if !quick {
                            for q in (p + 1)..c {
                                for b in 0..15u8 {
                                    let mut t2 = t.clone();
                                    t2[q] = b;
                                    tapes.push(t2);
                                }
                            }
                        }
                    }
                }
            }
            // input vertices: every lane pattern of every input
            let n_in = f.ins.len();
            let n_vert = 16usize.pow(n_in as u32);
            let mut runs = 0u64;
            let mut worst_out: f64 = 0.0;
            for vert in 0..n_vert {
                let inputs: Vec<Raw> = (0..n_in).map(|k| sat(((vert >> (4 * k)) & 15) as u8, &f.ins[k])).collect();
                for t in &tapes {
                    runs += 1;
                    tape::install(t, 0b1111);
                    let r = guarded(|| (f.body)(&inputs));
                    let passed = tape::uninstall();
                    let case = json!({"kind": "saturation_tape", "formula": f.name, "input_lane_patterns": (0..n_in).map(|k| (vert >> (4 * k)) & 15).collect::<Vec<_>>(), "tape": t});
                    match r {
                        Err(e) => {
                            if is_magnitude_failure(&e) {
                                ctx.violation(&format!("tape.{}", f.name), &format!("under saturated reductions: {}", e), case);
                            }
                        }
                        Ok(out) => {
                            if !within(&out, f.out) {
                                ctx.violation(&format!("tape.{}.output", f.name), &format!("output exceeds the documented invariant b < {} of its type", f.out), case);
                            }
                            let _ = passed;
                        }
                    }
                }
            }
            total_tapes += runs;
            ctx.eval(runs);
            ctx.transitions.fetch_add(runs, std::sync::atomic::Ordering::Relaxed);
            ctx.states.fetch_add(n_vert as u64 * tapes.len() as u64, std::sync::atomic::Ordering::Relaxed);
            ctx.count(&format!("tape_choice_points[{}]", f.name), c as u64);
            ctx.count(&format!("tape_runs[{}]", f.name), runs);
            ctx.bound(&format!("tape_exhaustive[{}]", f.name), json!(exhaustive_tapes));
            let _ = worst_out;
        }
        // whole public operations under the tape: default all-MAX and every single deviation
        {
            use curve25519_dalek::edwards::EdwardsPoint;
            use curve25519_dalek::scalar::Scalar;
            use curve25519_dalek::traits::{MultiscalarMul, VartimeMultiscalarMul};
            let p = crate::real::real_basepoint();
            let s = crate::real::scalar(&crate::model::zl::l().sub(&crate::model::nat::U::from_u64(3)));
            let ops: Vec<(&'static str, Box<dyn Fn() + Sync>)> = vec![
                ("variable_base P*s", Box::new(move || { std::hint::black_box(&p * &s); })),
                ("vartime_double_base", Box::new(move || { std::hint::black_box(EdwardsPoint::vartime_double_scalar_mul_basepoint(&s, &p, &s)); })),
                ("straus multiscalar n=3", Box::new(move || { std::hint::black_box(EdwardsPoint::multiscalar_mul([s, s, s].iter(), [p, p, p].iter())); })),
                ("vartime straus n=3", Box::new(move || { std::hint::black_box(EdwardsPoint::vartime_multiscalar_mul([s, s, s].iter(), [p, p, p].iter())); })),
                ("pippenger n=200", Box::new(move || { let ss = vec![s; 200]; let pp = vec![p; 200]; std::hint::black_box(EdwardsPoint::vartime_multiscalar_mul(ss.iter(), pp.iter())); })),
                ("lookup tables", Box::new(move || { std::hint::black_box(v::lookup_table(&p)); std::hint::black_box(v::naf_table5(&p)); std::hint::black_box(v::naf_table8(&p)); })),
            ];
            for (name, op) in &ops {
                monitor::enforce(false);
                tape::install(&[], 0b1111);
                let _ = guarded(|| op());
                let c = tape::uninstall();
                monitor::enforce(true);
                let stride = if quick { (c / 40).max(1) } else { 1 };
                let mut runs = 0u64;
                let mut run_tape = |t: &[u8], default: u8| {
                    runs += 1;
                    tape::install(t, default);
                    let r = guarded(|| op());
                    tape::uninstall();
                    if let Err(e) = r {
                        if is_magnitude_failure(&e) {
                            ctx.violation(&format!("tape.op.{}", name), &format!("under saturated reductions: {}", e), json!({"kind": "saturation_tape_op", "op": name, "tape_len": t.len(), "deviation": t.iter().position(|x| *x != default), "default": default}));
                        }
                    }
                };
                run_tape(&[], 0b1111);
                run_tape(&[], 0b0000);
                for pos in (0..c).step_by(stride) {
                    for a in [0b0000u8, 0b0101, 0b1010, 0b0011, 0b1100, 0b0110, 0b1001, 0b1110, 0b0111] {
                        let mut t = vec![0b1111u8; pos + 1];
                        t[pos] = a;
                        run_tape(&t, 0b1111);
                    }
                }
                ctx.eval(runs);
                ctx.count(&format!("tape_choice_points[{}]", name), c as u64);
                ctx.count(&format!("tape_runs[{}]", name), runs);
                total_tapes += runs;
            }
        }
        ctx.count("tape_total_runs", total_tapes);
        ctx.sample_tag("tape", json!({"formula": "ExtendedPoint + CachedPoint", "inputs": "every lane pattern of (b<0.007, b<1.0) saturated inputs", "tape": "every answer sequence of the 2 reducing kernels", "oracle": "entry monitors of diff_sum/mul/negate_lazy + output invariant b<0.007"}));
    });
}
