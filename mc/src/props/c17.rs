//! C17 — ff/group trait implementations agree with the inherent API and the axioms.

use crate::alpha;
use crate::ev::{guarded, Ctx};
use crate::model::ed;
use crate::model::nat::{hex, U};
use crate::model::ris;
use crate::model::zl::{l, Zl};
use crate::props::{c03, c06};
use crate::real::{self, ScriptRng};
use curve25519_dalek::edwards::{EdwardsPoint, SubgroupPoint};
use curve25519_dalek::ristretto::RistrettoPoint;
use curve25519_dalek::scalar::Scalar;
use ff::{Field, FromUniformBytes, PrimeField, PrimeFieldBits};
use group::cofactor::CofactorGroup;
use group::{Group, GroupEncoding};
use rayon::prelude::*;
use serde_json::json;

fn modpow(b: &U, e: &U, m: &U) -> U {
    let mut r = U::ONE;
    let b = b.rem(m);
    for i in (0..e.bits()).rev() {
        r = r.mul(&r).rem(m);
        if e.bit(i) {
            r = r.mul(&b).rem(m);
        }
    }
    r
}

/// Miller-Rabin with fixed small bases (deterministic enumeration, not sampling: the bases
/// are a constant list; a composite passing all of them would make the *model* wrong, which
/// only matters for the primitive-root obligation).
fn is_probable_prime(n: &U) -> bool {
    if *n < U::from_u64(2) {
        return false;
    }
    for p in [2u64, 3, 5, 7, 11, 13, 17, 19, 23, 29, 31, 37] {
        if *n == U::from_u64(p) {
            return true;
        }
        if n.rem(&U::from_u64(p)).is_zero() {
            return false;
        }
    }
    let nm1 = n.sub(&U::ONE);
    let mut d = nm1;
    let mut s = 0;
    while !d.bit(0) {
        d = d.shr(1);
        s += 1;
    }
    'outer: for a in [2u64, 3, 5, 7, 11, 13, 17, 19, 23, 29, 31, 37] {
        let mut x = modpow(&U::from_u64(a), &d, n);
        if x == U::ONE || x == nm1 {
            continue;
        }
        for _ in 0..s - 1 {
            x = x.mul(&x).rem(n);
            if x == nm1 {
                continue 'outer;
            }
        }
        return false;
    }
    true
}

fn sc_of(s: &Scalar) -> Zl {
    Zl(U::from_le(s.as_bytes()))
}

pub fn run(ctx: &Ctx) {
    let quick = ctx.quick();
    let lm = l();
    macro_rules! ck {
        ($key:expr, $cond:expr, $($m:tt)*) => {{
            ctx.eval(1);
            ctx.case($key);
            if !($cond) {
                ctx.violation($key, &format!($($m)*), json!({"kind": "ff_const", "which": $key}));
            }
        }};
    }
    // ---- advertised constants
    let s_exp = <Scalar as PrimeField>::S;
    let g = sc_of(&<Scalar as PrimeField>::MULTIPLICATIVE_GENERATOR);
    let t = lm.sub(&U::ONE).shr(s_exp as usize);
    ck!("ff.MODULUS", <Scalar as PrimeField>::MODULUS.trim_start_matches("0x").trim_start_matches('0') == lm.hex().trim_start_matches('0'), "MODULUS string {}", <Scalar as PrimeField>::MODULUS);
    ck!("ff.NUM_BITS", <Scalar as PrimeField>::NUM_BITS as usize == lm.bits() && <Scalar as PrimeField>::CAPACITY as usize == lm.bits() - 1, "NUM_BITS / CAPACITY");
    ck!("ff.S", lm.sub(&U::ONE).low_bits(s_exp as usize).is_zero() && t.bit(0), "2^S exactly divides l-1");
    ck!("ff.TWO_INV", sc_of(&<Scalar as PrimeField>::TWO_INV).mul(&Zl::from_u64(2)) == Zl::ONE, "TWO_INV * 2 = 1");
    // factorisation of l-1, carried by the model and checked
    let factors = [
        U::from_u64(2),
        U::from_u64(3),
        U::from_u64(11),
        U::from_dec("198211423230930754013084525763697"),
        U::from_dec("276602624281642239937218680557139826668747"),
    ];
    let prod = factors[0].mul(&factors[0]).mul(&factors[1]).mul(&factors[2]).mul(&factors[3]).mul(&factors[4]);
    ck!("ff.model.factorisation", prod == lm.sub(&U::ONE) && factors.iter().all(is_probable_prime) && is_probable_prime(&lm), "model: factorisation of l-1");
    for q in &factors {
        let e = lm.sub(&U::ONE).divrem(q).0;
        ck!("ff.MULTIPLICATIVE_GENERATOR.primitive", g.pow(&e) != Zl::ONE, "g^((l-1)/{}) = 1: g is not a primitive root", q.hex());
    }
    ck!("ff.MULTIPLICATIVE_GENERATOR.nonresidue", g.pow(&lm.sub(&U::ONE).shr(1)) == Zl::ONE.neg(), "g is a quadratic non-residue");
    let rou = sc_of(&<Scalar as PrimeField>::ROOT_OF_UNITY);
    ck!("ff.ROOT_OF_UNITY", rou == g.pow(&t), "ROOT_OF_UNITY = g^t");
    ck!("ff.ROOT_OF_UNITY.order", rou.pow(&U::pow2(s_exp as usize)) == Zl::ONE && rou.pow(&U::pow2(s_exp as usize - 1)) != Zl::ONE, "ROOT_OF_UNITY has order exactly 2^S");
    ck!("ff.ROOT_OF_UNITY_INV", rou.mul(&sc_of(&<Scalar as PrimeField>::ROOT_OF_UNITY_INV)) == Zl::ONE, "ROOT_OF_UNITY * ROOT_OF_UNITY_INV = 1");
    ck!("ff.DELTA", sc_of(&<Scalar as PrimeField>::DELTA) == g.pow(&U::pow2(s_exp as usize)), "DELTA = g^(2^S)");
    // every advertised constant is a *canonical* scalar (the invariant every Scalar carries): an unreduced
    // representative of the right residue passes the multiplicative relations above, and breaks ==, to_repr/from_repr,
    // is_odd, + and -
    for (name, c) in [
        ("TWO_INV", <Scalar as PrimeField>::TWO_INV),
        ("MULTIPLICATIVE_GENERATOR", <Scalar as PrimeField>::MULTIPLICATIVE_GENERATOR),
        ("ROOT_OF_UNITY", <Scalar as PrimeField>::ROOT_OF_UNITY),
        ("ROOT_OF_UNITY_INV", <Scalar as PrimeField>::ROOT_OF_UNITY_INV),
        ("DELTA", <Scalar as PrimeField>::DELTA),
        ("ZERO", <Scalar as Field>::ZERO),
        ("ONE", <Scalar as Field>::ONE),
    ] {
        let int = U::from_le(c.as_bytes());
        let rt: Option<Scalar> = <Scalar as PrimeField>::from_repr(<Scalar as PrimeField>::to_repr(&c)).into();
        ck!(&format!("ff.{}.canonical", name), int < lm && rt == Some(c) && bool::from(<Scalar as PrimeField>::is_odd(&c)) == int.bit(0), "{} is not a canonical scalar (bytes {})", name, hex(c.as_bytes()));
    }
    ck!("ff.TWO_INV.sum", <Scalar as PrimeField>::TWO_INV + <Scalar as PrimeField>::TWO_INV == <Scalar as Field>::ONE, "TWO_INV + TWO_INV = 1");
    ck!("ff.ZERO_ONE", sc_of(&<Scalar as Field>::ZERO) == Zl::ZERO && sc_of(&<Scalar as Field>::ONE) == Zl::ONE, "ZERO / ONE");
    {
        let bits = <Scalar as PrimeFieldBits>::char_le_bits();
        let ok = (0..256).all(|i| bits[i] == lm.bit(i));
        ck!("ff.char_le_bits", ok, "char_le_bits = l");
    }
    // ---- field methods on the scalar alphabet
    let vals: Vec<U> = {
        let mut v = alpha::sc_reduced(200);
        // squares, non-residues (2 * square: 2 is a non-residue), and small values
        for k in [2u64, 3, 5, 7, 9, 16, 121665] {
            let x = Zl::from_u64(k);
            v.push(x.mul(&x).0);
            v.push(x.mul(&x).mul(&Zl::from_u64(2)).0);
        }
        v.truncate(if quick { 200 } else { 400 });
        v
    };
    let stats = std::sync::Mutex::new([0u64; 2]);
    vals.par_iter().for_each(|x| {
        ctx.eval(1);
        let rs = real::scalar(x);
        let m = Zl(*x);
        let case = json!({"kind": "ff", "scalar": x.hex()});
        ctx.case(&case.to_string());
        // Euler criterion
        let is_sq = m.is_zero() || m.pow(&lm.sub(&U::ONE).shr(1)) == Zl::ONE;
        match guarded(|| Option::<Scalar>::from(Field::sqrt(&rs))) {
            Ok(r) => {
                stats.lock().unwrap()[is_sq as usize] += 1;
                match r {
                    Some(root) => {
                        if !is_sq || sc_of(&root).mul(&sc_of(&root)) != m {
                            ctx.violation("ff.sqrt", "returned a value that is not a square root", case.clone());
                        }
                    }
                    None => {
                        if is_sq {
                            ctx.violation("ff.sqrt", "None for a quadratic residue", case.clone());
                        }
                    }
                }
            }
            Err(e) => ctx.violation("ff.sqrt", &format!("panic: {}", e), case.clone()),
        }
        let inv = Option::<Scalar>::from(Field::invert(&rs));
        if inv.is_some() == m.is_zero() || inv.map(|i| sc_of(&i).mul(&m) == Zl::ONE) == Some(false) {
            ctx.violation("ff.invert", "invert is None exactly for zero / wrong inverse", case.clone());
        }
        if sc_of(&Field::square(&rs)) != m.mul(&m) || sc_of(&Field::double(&rs)) != m.add(&m) {
            ctx.violation("ff.square_double", "square/double", case.clone());
        }
        if PrimeField::to_repr(&rs) != x.to_le32() || bool::from(PrimeField::is_odd(&rs)) != x.bit(0) {
            ctx.violation("ff.to_repr", "to_repr/is_odd", case.clone());
        }
        let bits = PrimeFieldBits::to_le_bits(&rs);
        if (0..256).any(|i| bits[i] != x.bit(i)) {
            ctx.violation("ff.to_le_bits", "to_le_bits", case.clone());
        }
        // sqrt_ratio on (x, y) for a few y
        for y in [Zl::ONE, Zl::from_u64(2), Zl::ZERO, m] {
            let ry = real::scalar(&y.0);
            let (c, r) = Field::sqrt_ratio(&rs, &ry);
            let c: bool = c.into();
            let r = sc_of(&r);
            // ff contract: (1, sqrt(num/div)) if num/div square and div != 0; (0, sqrt(G_S * num/div)) otherwise; (1,0) if num=0 (div!=0); (0,0) if div = 0
            let ok = if y.is_zero() {
                // div = 0 (ff::Field::sqrt_ratio): (true, 0) if num is zero as well, (false, 0) otherwise
                r.is_zero() && c == m.is_zero()
            } else {
                let q = m.mul(&y.inv());
                if c { r.mul(&r) == q } else { r.mul(&r) == q.mul(&rou) }
            };
            if !ok {
                ctx.violation("ff.sqrt_ratio", "sqrt_ratio contract", json!({"kind": "ff_ratio", "num": x.hex(), "div": y.0.hex()}));
            }
            if !y.is_zero() {
                let q = m.mul(&y.inv());
                let q_sq = q.is_zero() || q.pow(&lm.sub(&U::ONE).shr(1)) == Zl::ONE;
                if c != q_sq {
                    ctx.violation("ff.sqrt_ratio", "choice bit differs from the Euler criterion", json!({"kind": "ff_ratio", "num": x.hex(), "div": y.0.hex()}));
                }
            }
        }
    });
    ctx.count("sqrt_inputs_nonresidue", stats.lock().unwrap()[0]);
    ctx.count("sqrt_inputs_residue", stats.lock().unwrap()[1]);
    // from_repr / from_repr_vartime accept exactly canonical encodings
    {
        let mut cands: Vec<U> = alpha::sc_ints();
        for k in 0..20u64 {
            cands.push(lm.add(&U::from_u64(k)));
            cands.push(lm.sub(&U::from_u64(k + 1)));
        }
        cands.push(U::pow2(255));
        cands.push(U::pow2(255).add(&U::ONE));
        for x in cands {
            ctx.eval(1);
            let b = x.to_le32();
            let want = x < lm;
            let a: bool = <Scalar as PrimeField>::from_repr(b).is_some().into();
            let v = guarded(|| <Scalar as PrimeField>::from_repr_vartime(b).is_some());
            if a != want || v != Ok(want) {
                ctx.violation("ff.from_repr", &format!("from_repr={} from_repr_vartime={:?} canonical={}", a, v, want), json!({"kind": "ff_repr", "bytes": hex(&b)}));
            }
        }
    }
    // random / from_uniform_bytes = reduction of 64 bytes
    for (i, a) in alpha::sc_ints().iter().take(20).enumerate() {
        ctx.eval(1);
        let mut w = [0u8; 64];
        w[..32].copy_from_slice(&a.to_le32());
        w[32..].copy_from_slice(&alpha::sc_ints()[(i * 3 + 1) % 30].to_le32());
        let want = Zl::from_le(&w);
        let r1 = <Scalar as Field>::random(ScriptRng::new(&w));
        let r2 = <Scalar as FromUniformBytes<64>>::from_uniform_bytes(&w);
        if sc_of(&r1) != want || sc_of(&r2) != want {
            ctx.violation("ff.random", "random/from_uniform_bytes", json!({"kind": "ff_uniform", "bytes": hex(&w)}));
        }
    }
    // ---- GroupEncoding = compress / decompress
    let encs = c03::encodings(quick);
    encs.par_iter().for_each(|e| {
        ctx.eval(1);
        let m = ed::decompress(e);
        let case = json!({"kind": "group_encoding", "bytes": hex(e)});
        ctx.case(&case.to_string());
        let r = guarded(|| {
            let a: Option<EdwardsPoint> = <EdwardsPoint as GroupEncoding>::from_bytes(e).into();
            let b: Option<EdwardsPoint> = <EdwardsPoint as GroupEncoding>::from_bytes_unchecked(e).into();
            let s: Option<SubgroupPoint> = <SubgroupPoint as GroupEncoding>::from_bytes(e).into();
            let su: Option<SubgroupPoint> = <SubgroupPoint as GroupEncoding>::from_bytes_unchecked(e).into();
            (a.map(|p| GroupEncoding::to_bytes(&p)), b.map(|p| GroupEncoding::to_bytes(&p)), s.map(|p| GroupEncoding::to_bytes(&p)), su.map(|p| GroupEncoding::to_bytes(&p)))
        });
        match r {
            Err(pn) => ctx.violation("group.from_bytes", &format!("panic: {}", pn), case),
            Ok((a, b, s, su)) => {
                let want = m.map(|p| p.compress());
                if a != want || b != want {
                    ctx.violation("group.EdwardsPoint.from_bytes", "differs from decompress/compress", case.clone());
                }
                let want_sub = m.and_then(|p| if c03::torsion_index(&p) == 0 { Some(p.compress()) } else { None });
                if s != want_sub || su != want_sub {
                    ctx.violation("group.SubgroupPoint.from_bytes", &format!("accepts={} but torsion-free point: {}", s.is_some(), want_sub.is_some()), case.clone());
                }
            }
        }
    });
    let rencs = c06::encodings(quick);
    rencs.par_iter().for_each(|e| {
        ctx.eval(1);
        let m = ris::decode(e);
        let r = guarded(|| {
            let a: Option<RistrettoPoint> = <RistrettoPoint as GroupEncoding>::from_bytes(e).into();
            let b: Option<RistrettoPoint> = <RistrettoPoint as GroupEncoding>::from_bytes_unchecked(e).into();
            (a.map(|p| GroupEncoding::to_bytes(&p)), b.map(|p| GroupEncoding::to_bytes(&p)))
        });
        let want = m.map(|_| *e);
        if r != Ok((want, want)) {
            ctx.violation("group.RistrettoPoint.from_bytes", "differs from RFC 9496 decode", json!({"kind": "group_encoding_ris", "bytes": hex(e)}));
        }
    });
    // ---- CofactorGroup on every a*B + T_j
    let pts = c03::pool(if quick { 5 } else { 10 }, true);
    pts.par_iter().for_each(|k| {
        ctx.eval(1);
        let (a, j) = k.aj.clone().unwrap();
        let p = k.real;
        let case = json!({"kind": "cofactor", "point": k.name});
        ctx.case(&case.to_string());
        let r = guarded(|| {
            let sub: Option<SubgroupPoint> = CofactorGroup::into_subgroup(p).into();
            let tf: bool = CofactorGroup::is_torsion_free(&p).into();
            let cc: SubgroupPoint = CofactorGroup::clear_cofactor(&p);
            let so: bool = CofactorGroup::is_small_order(&p).into();
            (sub.map(|s| GroupEncoding::to_bytes(&s)), tf, GroupEncoding::to_bytes(&cc), so, bool::from(Group::is_identity(&p)), GroupEncoding::to_bytes(&Group::double(&p)))
        });
        match r {
            Err(e) => ctx.violation("group.cofactor", &format!("panic: {}", e), case),
            Ok((sub, tf, cc, so, id, dbl)) => {
                if sub.is_some() != (j == 0) || tf != (j == 0) || sub.map(|b| b == k.pt.compress()) == Some(false) {
                    ctx.violation("group.into_subgroup", &format!("into_subgroup is_some={} is_torsion_free={} for torsion component {}", sub.is_some(), tf, j), case.clone());
                }
                if cc != k.pt.mul(&U::from_u64(8)).compress() {
                    ctx.violation("group.clear_cofactor", "clear_cofactor != [8]P", case.clone());
                }
                if so != a.is_zero() || id != (a.is_zero() && j == 0) || dbl != k.pt.dbl().compress() {
                    ctx.violation("group.predicates", "is_small_order / is_identity / double", case.clone());
                }
            }
        }
    });
    // SubgroupPoint arithmetic is closed and agrees with the model
    {
        let free: Vec<&c03::Known> = pts.iter().filter(|k| k.aj.as_ref().unwrap().1 == 0).collect();
        for a in &free {
            for b in &free {
                ctx.eval(1);
                let sa: SubgroupPoint = Option::from(CofactorGroup::into_subgroup(a.real)).unwrap();
                let sb: SubgroupPoint = Option::from(CofactorGroup::into_subgroup(b.real)).unwrap();
                let sum = GroupEncoding::to_bytes(&(sa + sb));
                let dif = GroupEncoding::to_bytes(&(sa - sb));
                let neg = GroupEncoding::to_bytes(&(-sa));
                let s3 = real::scalar(&U::from_u64(3));
                let mul = GroupEncoding::to_bytes(&(sa * s3));
                let mixed = (a.real + sb).compress().0;
                if sum != a.pt.add(&b.pt).compress() || dif != a.pt.sub(&b.pt).compress() || neg != a.pt.neg().compress() || mul != a.pt.mul(&U::from_u64(3)).compress() || mixed != sum {
                    ctx.violation("group.SubgroupPoint.arith", "subgroup arithmetic", json!({"kind": "subgroup", "a": a.name, "b": b.name}));
                }
                // the rest of the wrapper's operator surface: every impl is a separate forwarding body
                let case = json!({"kind": "subgroup_surface", "a": a.name, "b": b.name});
                let r = guarded(|| {
                    let mut bad: Vec<&'static str> = Vec::new();
                    let enc = |p: &SubgroupPoint| GroupEncoding::to_bytes(p);
                    let want_sum = a.pt.add(&b.pt).compress();
                    let want_dif = a.pt.sub(&b.pt).compress();
                    let mut t = sa;
                    t += &sb;
                    if enc(&t) != want_sum {
                        bad.push("AddAssign<&SubgroupPoint> for SubgroupPoint");
                    }
                    let mut t = sa;
                    t += sb;
                    if enc(&t) != want_sum {
                        bad.push("AddAssign<SubgroupPoint>");
                    }
                    let mut t = sa;
                    t -= &sb;
                    if enc(&t) != want_dif {
                        bad.push("SubAssign<&SubgroupPoint> for SubgroupPoint");
                    }
                    let mut e = a.real;
                    e += &sb;
                    if e.compress().0 != want_sum {
                        bad.push("AddAssign<&SubgroupPoint> for EdwardsPoint");
                    }
                    let mut e = a.real;
                    e -= &sb;
                    if e.compress().0 != want_dif {
                        bad.push("SubAssign<&SubgroupPoint> for EdwardsPoint");
                    }
                    if (&a.real - &sb).compress().0 != want_dif || (a.real - sb).compress().0 != want_dif {
                        bad.push("Sub<&SubgroupPoint> for &EdwardsPoint");
                    }
                    if enc(&(&sa + &sb)) != want_sum || enc(&(sa + &sb)) != want_sum || enc(&(&sa + sb)) != want_sum {
                        bad.push("Add reference variants");
                    }
                    if enc(&(&sa - &sb)) != want_dif || enc(&(sa - &sb)) != want_dif || enc(&(&sa - sb)) != want_dif {
                        bad.push("Sub reference variants");
                    }
                    let sum3: SubgroupPoint = [sa, sb, sa].iter().sum();
                    let sum3o: SubgroupPoint = vec![sa, sb, sa].into_iter().sum();
                    let want3 = a.pt.add(&b.pt).add(&a.pt).compress();
                    let sum3f: SubgroupPoint = [sa, sb, sa].iter().filter(|_| std::hint::black_box(true)).sum();
                    if enc(&sum3) != want3 || enc(&sum3o) != want3 || enc(&sum3f) != want3 {
                        bad.push("Sum");
                    }
                    let empty: SubgroupPoint = Vec::<SubgroupPoint>::new().iter().sum();
                    if enc(&empty) != ed::ID.compress() {
                        bad.push("Sum of nothing");
                    }
                    if bool::from(subtle::ConstantTimeEq::ct_eq(&sa, &sb)) != (a.pt == b.pt) || (sa == sb) != (a.pt == b.pt) {
                        bad.push("ct_eq / ==");
                    }
                    let s0 = <SubgroupPoint as subtle::ConditionallySelectable>::conditional_select(&sa, &sb, subtle::Choice::from(0));
                    let s1 = <SubgroupPoint as subtle::ConditionallySelectable>::conditional_select(&sa, &sb, subtle::Choice::from(1));
                    if enc(&s0) != a.pt.compress() || enc(&s1) != b.pt.compress() {
                        bad.push("conditional_select");
                    }
                    if bool::from(Group::is_identity(&sa)) != a.pt.is_identity() || enc(&Group::double(&sa)) != a.pt.dbl().compress() {
                        bad.push("Group::is_identity / double");
                    }
                    if bool::from(Group::is_identity(&(sa - sa))) != true || bool::from(Group::is_identity(&(sa + sb))) != a.pt.add(&b.pt).is_identity() {
                        bad.push("Group::is_identity on results");
                    }
                    if EdwardsPoint::from(sa).compress().0 != a.pt.compress() {
                        bad.push("From<SubgroupPoint> for EdwardsPoint");
                    }
                    #[cfg(feature = "zeroize")]
                    {
                        let mut z = sa;
                        zeroize::Zeroize::zeroize(&mut z);
                        if enc(&z) != ed::ID.compress() {
                            bad.push("zeroize");
                        }
                    }
                    bad
                });
                match r {
                    Err(e) => ctx.violation("group.SubgroupPoint.surface", &format!("panic: {}", e), case),
                    Ok(bad) => {
                        for w in bad {
                            ctx.violation("group.SubgroupPoint.surface", &format!("{} disagrees with the group law", w), case.clone());
                        }
                    }
                }
            }
        }
    }
    // EdwardsPoint (any torsion component) +/- SubgroupPoint, and SubgroupPoint * Scalar in both orders
    {
        let free: Vec<&c03::Known> = pts.iter().filter(|k| k.aj.as_ref().unwrap().1 == 0).collect();
        let scs: Vec<U> = alpha::sc_reduced(if quick { 12 } else { 40 });
        for b in &free {
            let sb: SubgroupPoint = Option::from(CofactorGroup::into_subgroup(b.real)).unwrap();
            for k in &pts {
                ctx.eval(1);
                let case = json!({"kind": "subgroup_mixed", "a": k.name, "b": b.name});
                let r = guarded(|| ((&k.real + &sb).compress().0, (k.real + sb).compress().0, (&k.real - &sb).compress().0));
                match r {
                    Err(e) => ctx.violation("group.SubgroupPoint.mixed", &format!("panic: {}", e), case),
                    Ok((x, y, z)) => {
                        if x != k.pt.add(&b.pt).compress() || y != x || z != k.pt.sub(&b.pt).compress() {
                            ctx.violation("group.SubgroupPoint.mixed", "EdwardsPoint +/- SubgroupPoint disagrees with the group law", case);
                        }
                    }
                }
            }
            for x in &scs {
                ctx.eval(1);
                let rs = real::scalar(x);
                let case = json!({"kind": "subgroup_mul", "point": b.name, "scalar": x.hex()});
                let r = guarded(|| {
                    let mut t = sb;
                    t *= &rs;
                    let mut t2 = sb;
                    t2 *= rs;
                    (GroupEncoding::to_bytes(&(&sb * &rs)), GroupEncoding::to_bytes(&(&rs * &sb)), GroupEncoding::to_bytes(&(sb * rs)), GroupEncoding::to_bytes(&(rs * sb)), GroupEncoding::to_bytes(&t), GroupEncoding::to_bytes(&t2))
                });
                let want = b.pt.mul(x).compress();
                match r {
                    Err(e) => ctx.violation("group.SubgroupPoint.mul", &format!("panic: {}", e), case),
                    Ok(t) => {
                        if [t.0, t.1, t.2, t.3, t.4, t.5].iter().any(|e| *e != want) {
                            ctx.violation("group.SubgroupPoint.mul", "SubgroupPoint * Scalar disagrees with [k]P", case);
                        }
                    }
                }
            }
        }
    }
    // Group::{identity, generator, random} and the Ristretto side
    {
        ctx.eval(4);
        let ok = GroupEncoding::to_bytes(&<EdwardsPoint as Group>::identity()) == ed::ID.compress()
            && GroupEncoding::to_bytes(&<EdwardsPoint as Group>::generator()) == ed::basepoint().compress()
            && GroupEncoding::to_bytes(&<SubgroupPoint as Group>::generator()) == ed::basepoint().compress()
            && GroupEncoding::to_bytes(&<RistrettoPoint as Group>::generator()) == ris::encode(&ed::basepoint())
            && GroupEncoding::to_bytes(&<RistrettoPoint as Group>::identity()) == [0u8; 32];
        if !ok {
            ctx.violation("group.constants", "identity/generator", json!({"kind": "group_const"}));
        }
        // EdwardsPoint::random: rejection sampling over scripted candidates: first undecodable, then identity, then a valid point
        let mut script = Vec::new();
        let mut bad = [0u8; 32];
        bad[0] = 2;
        script.extend_from_slice(&bad);
        script.extend_from_slice(&ed::ID.compress());
        let good = ed::from_aj(&U::from_u64(7), 3).compress();
        script.extend_from_slice(&good);
        let r = guarded(|| GroupEncoding::to_bytes(&<EdwardsPoint as Group>::random(ScriptRng::new(&script))));
        if r != Ok(good) {
            ctx.violation("group.EdwardsPoint.random", "random does not return the first decodable non-identity candidate", json!({"kind": "group_random"}));
        }
        // SubgroupPoint::random = generator * reduce(64 bytes), skipping zero
        let mut w = vec![0u8; 64];
        w.extend_from_slice(&[5u8; 64]);
        let want = ed::mul_base(&Zl::from_le(&[5u8; 64]).0).compress();
        let r = guarded(|| GroupEncoding::to_bytes(&<SubgroupPoint as Group>::random(ScriptRng::new(&w))));
        if r != Ok(want) {
            ctx.violation("group.SubgroupPoint.random", "random", json!({"kind": "group_random"}));
        }
        // RistrettoPoint::random = one-way map of 64 bytes
        let w64 = [7u8; 64];
        let r = guarded(|| GroupEncoding::to_bytes(&<RistrettoPoint as Group>::random(ScriptRng::new(&w64))));
        if r != Ok(ris::encode(&ris::one_way_map(&w64))) {
            ctx.violation("group.RistrettoPoint.random", "random", json!({"kind": "group_random"}));
        }
        // the Ristretto trait methods on *every representative* of each element (the inner Edwards point shifted by
        // the 4-torsion through the hook): they must agree with the inherent, coset-aware API
        for k in c06::rpool(9) {
            for shift in 0..4usize {
                ctx.eval(1);
                let inner = &curve25519_dalek::verif::ristretto_inner(&k.real) + &curve25519_dalek::constants::EIGHT_TORSION[2 * shift];
                let p = curve25519_dalek::verif::ristretto_from_inner(&inner);
                let m_id = ris::equal(&k.pt, &ed::ID);
                let case = json!({"kind": "ris_traits", "point": k.name, "coset_shift": shift});
                let r = guarded(|| {
                    let mut bad: Vec<&'static str> = Vec::new();
                    if bool::from(Group::is_identity(&p)) != m_id || curve25519_dalek::traits::IsIdentity::is_identity(&p) != m_id || (p == <RistrettoPoint as Group>::identity()) != m_id {
                        bad.push("Group::is_identity / IsIdentity / == identity");
                    }
                    if GroupEncoding::to_bytes(&p) != ris::encode(&k.pt) || p.compress().0 != ris::encode(&k.pt) {
                        bad.push("GroupEncoding::to_bytes / compress");
                    }
                    if GroupEncoding::to_bytes(&Group::double(&p)) != ris::encode(&k.pt.dbl()) {
                        bad.push("Group::double");
                    }
                    if p != k.real || !bool::from(subtle::ConstantTimeEq::ct_eq(&p, &k.real)) {
                        bad.push("equality of representatives");
                    }
                    let diff = p - k.real;
                    if !bool::from(Group::is_identity(&diff)) || GroupEncoding::to_bytes(&diff) != [0u8; 32] {
                        bad.push("P - P' (different representatives) is the identity");
                    }
                    let sub: Option<RistrettoPoint> = CofactorGroup::into_subgroup(p).into();
                    if sub != Some(p) || !bool::from(CofactorGroup::is_torsion_free(&p)) || CofactorGroup::clear_cofactor(&p) != p {
                        bad.push("CofactorGroup");
                    }
                    bad
                });
                match r {
                    Err(e) => ctx.violation("group.RistrettoPoint.representatives", &format!("panic: {}", e), case),
                    Ok(bad) => {
                        for w in bad {
                            ctx.violation("group.RistrettoPoint.representatives", &format!("{} disagrees on a non-canonical representative", w), case.clone());
                        }
                    }
                }
            }
        }
        // Ristretto CofactorGroup is trivial
        for k in c06::rpool(5) {
            let p = k.real;
            let tf: bool = CofactorGroup::is_torsion_free(&p).into();
            let sub: Option<RistrettoPoint> = CofactorGroup::into_subgroup(p).into();
            let cc = CofactorGroup::clear_cofactor(&p);
            if !tf || sub != Some(p) || cc != p {
                ctx.violation("group.RistrettoPoint.cofactor", "Ristretto cofactor group is not trivial", json!({"kind": "ris_cofactor", "point": k.name}));
            }
        }
    }
    ctx.sample_tag("group", json!({"point": "B + T_1", "expected": "into_subgroup = None, clear_cofactor = [8]B"}));
}
