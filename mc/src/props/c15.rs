//! C15 — untrusted input never panics: decoders and verifiers are total.
//!
//! Every entry point that consumes untrusted bytes x its adversarial alphabet, under
//! catch_unwind.  Run on the release *and* the checked profile (overflow checks and debug
//! assertions on) by the front-end.

use crate::alpha;
use crate::ev::{guarded, Ctx};
use crate::model::ed;
use crate::model::eddsa;
use crate::model::fp::{self, Fp};
use crate::model::nat::{hex, U};
use crate::model::ris;
use crate::props::{c03, c06, c07, c13, sigs};
use crate::real::IdDigest;
use curve25519_dalek::edwards::{CompressedEdwardsY, EdwardsPoint};
use curve25519_dalek::montgomery::MontgomeryPoint;
use curve25519_dalek::ristretto::{CompressedRistretto, RistrettoPoint};
use curve25519_dalek::scalar::Scalar;
use ed25519_dalek::hazmat::ExpandedSecretKey;
use ed25519_dalek::{Signature, SigningKey, VerifyingKey};
use rayon::prelude::*;
use serde_json::json;
use sha2::Sha512;

/// outcome of one call: Ok(Some(accepted)) for decoders, Ok(None) for total constructors
fn drive(ctx: &Ctx, key: &str, case: serde_json::Value, expect_ok: Option<bool>, f: impl FnOnce() -> bool) {
    ctx.eval(1);
    ctx.case(&format!("{}|{}", key, case));
    match guarded(f) {
        Err(e) => ctx.violation(key, &format!("panic: {}", e), case),
        Ok(got) => {
            if let Some(w) = expect_ok {
                if got != w {
                    ctx.violation(key, &format!("returned ok={} but the input is {}", got, if w { "well-formed" } else { "malformed" }), case);
                }
            }
        }
    }
}

pub fn run(ctx: &Ctx) {
    let quick = ctx.quick();
    // ---- slice decoders on every length 0..=70 x content patterns
    let pats: Vec<u8> = vec![0x00, 0xff, 0x01, 0x58];
    for n in 0..=70usize {
        for p in &pats {
            let v: Vec<u8> = (0..n).map(|i| if i == 0 { *p } else { p.wrapping_add((i as u8) & 1) }).collect();
            let case = |what: &str| json!({"kind": "slice", "decoder": what, "len": n, "pattern": p});
            drive(ctx, "slice.CompressedEdwardsY::from_slice", case("CompressedEdwardsY::from_slice"), Some(n == 32), || CompressedEdwardsY::from_slice(&v).is_ok());
            drive(ctx, "slice.CompressedEdwardsY::try_from", case("CompressedEdwardsY::try_from"), Some(n == 32), || CompressedEdwardsY::try_from(&v[..]).is_ok());
            drive(ctx, "slice.CompressedRistretto::from_slice", case("CompressedRistretto::from_slice"), Some(n == 32), || CompressedRistretto::from_slice(&v).is_ok());
            drive(ctx, "slice.CompressedRistretto::try_from", case("CompressedRistretto::try_from"), Some(n == 32), || CompressedRistretto::try_from(&v[..]).is_ok());
            drive(ctx, "slice.SigningKey::try_from", case("SigningKey::try_from"), Some(n == 32), || SigningKey::try_from(&v[..]).is_ok());
            drive(ctx, "slice.Signature::from_slice", case("Signature::from_slice"), Some(n == 64), || Signature::from_slice(&v).is_ok());
            drive(ctx, "slice.Signature::try_from", case("Signature::try_from"), Some(n == 64), || Signature::try_from(&v[..]).is_ok());
            drive(ctx, "slice.ExpandedSecretKey::from_slice", case("ExpandedSecretKey::from_slice"), Some(n == 64), || ExpandedSecretKey::from_slice(&v).is_ok());
            drive(ctx, "slice.ExpandedSecretKey::try_from", case("ExpandedSecretKey::try_from"), Some(n == 64), || ExpandedSecretKey::try_from(&v[..]).is_ok());
            // VerifyingKey: length 32 is necessary; whether it decodes is the model's call
            let vk_ok = n == 32 && {
                let mut b = [0u8; 32];
                b.copy_from_slice(&v);
                ed::decompress(&b).is_some()
            };
            drive(ctx, "slice.VerifyingKey::try_from", case("VerifyingKey::try_from"), Some(vk_ok), || VerifyingKey::try_from(&v[..]).is_ok());
            // pkcs8 / SPKI DER decoders on arbitrary bytes (must not panic; acceptance not asserted)
            drive(ctx, "slice.SigningKey::from_pkcs8_der", case("from_pkcs8_der"), None, || {
                use ed25519_dalek::pkcs8::DecodePrivateKey;
                SigningKey::from_pkcs8_der(&v).is_ok()
            });
            drive(ctx, "slice.VerifyingKey::from_public_key_der", case("from_public_key_der"), None, || {
                use ed25519_dalek::pkcs8::DecodePublicKey;
                VerifyingKey::from_public_key_der(&v).is_ok()
            });
        }
    }
    // a valid PKCS#8 document with every single byte mutated / truncated
    {
        use ed25519_dalek::pkcs8::{DecodePrivateKey, DecodePublicKey, EncodePrivateKey, EncodePublicKey};
        let sk = SigningKey::from_bytes(&sigs::seeds(1)[0]);
        let der = sk.to_pkcs8_der().expect("encode").as_bytes().to_vec();
        let pder = sk.verifying_key().to_public_key_der().expect("encode").as_bytes().to_vec();
        drive(ctx, "pkcs8.roundtrip", json!({"kind": "pkcs8"}), Some(true), || {
            SigningKey::from_pkcs8_der(&der).map(|k| k.to_bytes() == sk.to_bytes()).unwrap_or(false) && VerifyingKey::from_public_key_der(&pder).map(|k| k == sk.verifying_key()).unwrap_or(false)
        });
        for (name, doc) in [("private", &der), ("public", &pder)] {
            for i in 0..doc.len() {
                for m in [0x01u8, 0x80, 0xff] {
                    let mut d = doc.clone();
                    d[i] ^= m;
                    drive(ctx, "pkcs8.mutated", json!({"kind": "pkcs8_mut", "doc": name, "pos": i, "xor": m}), None, || {
                        if name == "private" { SigningKey::from_pkcs8_der(&d).is_ok() } else { VerifyingKey::from_public_key_der(&d).is_ok() }
                    });
                }
                let d = &doc[..i];
                drive(ctx, "pkcs8.truncated", json!({"kind": "pkcs8_trunc", "doc": name, "len": i}), Some(false), || {
                    if name == "private" { SigningKey::from_pkcs8_der(d).is_ok() } else { VerifyingKey::from_public_key_der(d).is_ok() }
                });
            }
        }
    }
    // ---- 32-byte decoders on the encoding alphabets
    let ed_encs = c03::encodings(quick);
    ed_encs.par_iter().for_each(|e| {
        let w = ed::decompress(e).is_some();
        drive(ctx, "dec.CompressedEdwardsY::decompress", json!({"kind": "dec", "bytes": hex(e)}), Some(w), || CompressedEdwardsY(*e).decompress().is_some());
        drive(ctx, "dec.VerifyingKey::from_bytes", json!({"kind": "dec", "bytes": hex(e)}), Some(w), || VerifyingKey::from_bytes(e).is_ok());
        drive(ctx, "dec.VerifyingKey::is_weak", json!({"kind": "dec", "bytes": hex(e)}), None, || VerifyingKey::from_bytes(e).map(|k| k.is_weak()).unwrap_or(false));
        drive(ctx, "dec.SigningKey::from_bytes", json!({"kind": "dec", "bytes": hex(e)}), Some(true), || SigningKey::from_bytes(e).verifying_key().to_bytes().len() == 32);
        drive(ctx, "dec.x25519", json!({"kind": "dec", "bytes": hex(e)}), Some(true), || x25519_dalek::x25519(*e, *e).len() == 32);
        drive(ctx, "dec.Scalar::from_bytes_mod_order", json!({"kind": "dec", "bytes": hex(e)}), Some(true), || Scalar::from_bytes_mod_order(*e).to_bytes().len() == 32);
        drive(ctx, "dec.Scalar::from_canonical_bytes", json!({"kind": "dec", "bytes": hex(e)}), Some(U::from_le(e) < crate::model::zl::l()), || bool::from(Scalar::from_canonical_bytes(*e).is_some()));
        for sign in [0u8, 1] {
            drive(ctx, "dec.MontgomeryPoint::to_edwards", json!({"kind": "dec", "bytes": hex(e), "sign": sign}), Some(crate::model::mont::to_edwards(&Fp::from_bytes(e), sign == 1).is_some()), || MontgomeryPoint(*e).to_edwards(sign).is_some());
        }
        drive(ctx, "dec.MontgomeryPoint::mul_clamped", json!({"kind": "dec", "bytes": hex(e)}), Some(true), || MontgomeryPoint(*e).mul_clamped(*e).to_bytes().len() == 32);
        drive(ctx, "dec.EdwardsPoint::mul_base_clamped", json!({"kind": "dec", "bytes": hex(e)}), Some(true), || EdwardsPoint::mul_base_clamped(*e).compress().0.len() == 32);
    });
    let ris_encs = c06::encodings(quick);
    ris_encs.par_iter().for_each(|e| {
        drive(ctx, "dec.CompressedRistretto::decompress", json!({"kind": "dec", "bytes": hex(e)}), Some(ris::decode(e).is_some()), || CompressedRistretto(*e).decompress().is_some());
    });
    // whatever the decoders accept can be handed to the batched encoder in any position (the identity, whose
    // denominators vanish, first, last and alone)
    {
        let decoded: Vec<(RistrettoPoint, [u8; 32])> = ris_encs.iter().filter_map(|e| CompressedRistretto(*e).decompress().map(|p| (p, *e))).collect();
        let id = CompressedRistretto([0u8; 32]).decompress().expect("identity decodes");
        decoded.par_iter().enumerate().for_each(|(i, (p, e))| {
            let q = decoded[(i * 7 + 1) % decoded.len()].0;
            for (k, batch) in [vec![*p], vec![*p, q], vec![id, *p], vec![*p, id], vec![id, id, *p]].into_iter().enumerate() {
                drive(ctx, "dec.RistrettoPoint::double_and_compress_batch", json!({"kind": "dec_batch", "bytes": hex(e), "layout": k}), Some(true), || RistrettoPoint::double_and_compress_batch(batch.iter()).len() == batch.len());
            }
        });
    }
    for u in c07::us(quick) {
        for sign in [0u8, 1] {
            drive(ctx, "dec.MontgomeryPoint::to_edwards", json!({"kind": "dec", "bytes": hex(&u), "sign": sign}), Some(crate::model::mont::to_edwards(&Fp::from_bytes(&u), sign == 1).is_some()), || MontgomeryPoint(u).to_edwards(sign).is_some());
        }
    }
    // ---- hash-to-group and hash-to-scalar maps, incl. exceptional preimages through the
    //      identity digest
    let mut halves: Vec<[u8; 32]> = alpha::fe_bytes();
    {
        // Ristretto map: r = i r0^2 in {-1, -d, -1/d, 1, 0}; Montgomery elligator: 1 + 2 r0^2 = 0,
        // r0 = 0, and values whose output u is 0 or -1 if they exist
        let i = fp::sqrt_m1();
        let d = fp::d();
        let mut targets: Vec<Fp> = vec![Fp::ONE.neg(), d.neg(), d.inv().neg(), Fp::ONE, Fp::ZERO];
        targets.push(Fp::from_u64(2).inv().neg().mul(&i)); // r0^2 = -1/2  (as i*r0^2 target: multiply by i)
        for t in targets {
            if let Some(r0) = fp::sqrt(&t.mul(&i.inv())) {
                halves.push(r0.to_bytes());
                halves.push(r0.neg().to_bytes());
            }
        }
        if let Some(r0) = fp::sqrt(&Fp::from_u64(2).inv().neg()) {
            halves.push(r0.to_bytes());
            let mut hb = r0.to_bytes();
            hb[31] |= 0x80;
            halves.push(hb);
        }
    }
    let nh = if quick { 60.min(halves.len()) } else { halves.len() };
    ctx.bound("hash_map_halves", json!(nh));
    halves[..nh].par_iter().for_each(|a| {
        drive(ctx, "map.nonspec_map_to_curve", json!({"kind": "map", "bytes": hex(a)}), Some(true), || {
            #[allow(deprecated)]
            let p = EdwardsPoint::nonspec_map_to_curve::<IdDigest>(a);
            p.compress().0.len() == 32
        });
        for b in halves[..nh].iter().step_by(if quick { 7 } else { 3 }) {
            let mut w = [0u8; 64];
            w[..32].copy_from_slice(a);
            w[32..].copy_from_slice(b);
            drive(ctx, "map.RistrettoPoint::from_uniform_bytes", json!({"kind": "map", "bytes": hex(&w)}), Some(true), || RistrettoPoint::from_uniform_bytes(&w).compress().0.len() == 32);
            drive(ctx, "map.RistrettoPoint::hash_from_bytes", json!({"kind": "map", "bytes": hex(&w)}), Some(true), || RistrettoPoint::hash_from_bytes::<IdDigest>(&w).compress().0.len() == 32);
            drive(ctx, "map.Scalar::from_bytes_mod_order_wide", json!({"kind": "map", "bytes": hex(&w)}), Some(true), || Scalar::from_bytes_mod_order_wide(&w).to_bytes().len() == 32);
            drive(ctx, "map.Scalar::hash_from_bytes", json!({"kind": "map", "bytes": hex(&w)}), Some(true), || Scalar::hash_from_bytes::<IdDigest>(&w).to_bytes().len() == 32);
        }
    });
    for n in alpha::msg_lens() {
        let m = alpha::msg_of_len(n, 1);
        drive(ctx, "map.sha512", json!({"kind": "map_sha", "len": n}), Some(true), || {
            #[allow(deprecated)]
            let a = EdwardsPoint::nonspec_map_to_curve::<Sha512>(&m).compress().0.len();
            a == 32 && RistrettoPoint::hash_from_bytes::<Sha512>(&m).compress().0.len() == 32 && Scalar::hash_from_bytes::<Sha512>(&m).to_bytes().len() == 32
        });
    }
    // ---- the bit-string ladder with empty and huge iterators
    for len in [0usize, 1, 255, 256, 1000, 100_000] {
        drive(ctx, "mont.mul_bits_be", json!({"kind": "bits", "len": len}), Some(true), || MontgomeryPoint([9u8; 32]).mul_bits_be((0..len).map(|i| i % 3 == 0)).to_bytes().len() == 32);
    }
    // ---- verification: adversarial tuples (a thinner version of the C09 product, all verifiers,
    //      and every context length incl. > 255)
    {
        let encs: Vec<[u8; 32]> = ed_encs.iter().cloned().step_by(if quick { 37 } else { 11 }).collect();
        let svals: Vec<[u8; 32]> = vec![[0u8; 32], [0xff; 32], crate::model::zl::l().to_le32(), crate::model::zl::l().sub(&U::ONE).to_le32(), U::pow2(255).to_le32(), U::pow2(253).to_le32()];
        let ctxs: Vec<Option<Vec<u8>>> = vec![None, Some(vec![]), Some(alpha::msg_of_len(255, 1)), Some(alpha::msg_of_len(256, 1)), Some(alpha::msg_of_len(257, 1)), Some(alpha::msg_of_len(1000, 1))];
        let jobs: Vec<(usize, usize)> = (0..encs.len()).flat_map(|a| (0..encs.len()).map(move |r| (a, r))).collect();
        jobs.par_iter().for_each(|(a, r)| {
            for s in &svals {
                let mut sig = [0u8; 64];
                sig[..32].copy_from_slice(&encs[*r]);
                sig[32..].copy_from_slice(s);
                for c in &ctxs {
                    for msg in [&b""[..], &b"m"[..]] {
                        ctx.eval(1);
                        for (name, strict, res) in sigs::real_verifiers(&encs[*a], msg, &sig, c.as_deref()) {
                            match res {
                                Err(e) => ctx.violation(&format!("verify.{}", name), &format!("panic: {}", e), json!({"kind": "verify", "key": hex(&encs[*a]), "sig": hex(&sig), "ctx_len": c.as_ref().map(|x| x.len()), "msg": hex(msg)})),
                                Ok(acc) => {
                                    // malformed input must be refused: undecodable key, S >= l (non-legacy), long context
                                    let malformed = ed::decompress(&encs[*a]).is_none()
                                        || (!cfg!(feature = "legacy") && U::from_le(s) >= crate::model::zl::l())
                                        || c.as_ref().map(|x| x.len() > 255).unwrap_or(false);
                                    if malformed && acc {
                                        ctx.violation(&format!("verify.{}", name), "malformed input accepted", json!({"kind": "verify", "key": hex(&encs[*a]), "sig": hex(&sig), "ctx_len": c.as_ref().map(|x| x.len()), "msg": hex(msg), "strict": strict}));
                                    }
                                }
                            }
                        }
                    }
                }
            }
        });
    }
    // ---- batch verification on the C13 corruption space and on mismatched lengths
    c13::panic_sweep(ctx, quick);
    // ---- default trait methods that `.expect()` internally, on valid points
    {
        use curve25519_dalek::traits::{VartimeMultiscalarMul, VartimePrecomputedMultiscalarMul};
        let pts = c03::pool(2, true);
        for n in [0usize, 1, 2, 17, 95, 200, 400, 800] {
            let ps: Vec<EdwardsPoint> = (0..n).map(|i| pts[i % pts.len()].real).collect();
            let ss: Vec<Scalar> = (0..n).map(|i| Scalar::from(i as u64 + 1)).collect();
            drive(ctx, "traits.vartime_multiscalar_mul", json!({"kind": "traits", "n": n}), Some(true), || EdwardsPoint::vartime_multiscalar_mul(ss.iter(), ps.iter()).compress().0.len() == 32);
            drive(ctx, "traits.vartime_mixed_multiscalar_mul", json!({"kind": "traits", "n": n}), Some(true), || {
                let pre = curve25519_dalek::edwards::VartimeEdwardsPrecomputation::new(ps.iter());
                pre.vartime_mixed_multiscalar_mul(ss.iter(), ss.iter(), ps.iter()).compress().0.len() == 32
            });
        }
    }
    let _ = eddsa::sha512(&[b""]);
    ctx.sample_tag("untrusted", json!({"entry": "verify_prehashed", "input": "context of 256 bytes", "expected": "Err, no panic (also on the checked profile)"}));
}
