//! C14 — secret material is erased on drop and from freed heap buffers.

use crate::alpha;
use crate::ev::{guarded, Ctx};
use crate::heap::{find_leak, observe, Freed};
use crate::model::ed;
use crate::model::eddsa;
use crate::model::mont;
use crate::model::nat::{hex, U};
use crate::model::zl::{l, Zl};
use crate::props::c03;
use crate::real;
use curve25519_dalek::edwards::{CompressedEdwardsY, EdwardsPoint};
use curve25519_dalek::montgomery::MontgomeryPoint;
use curve25519_dalek::ristretto::{CompressedRistretto, RistrettoPoint};
use curve25519_dalek::scalar::Scalar;
use curve25519_dalek::traits::{Identity, MultiscalarMul};
use ed25519_dalek::hazmat::ExpandedSecretKey;
use ed25519_dalek::SigningKey;
use serde_json::json;
use signature::Signer;
use x25519_dalek::{EphemeralSecret, PublicKey, ReusableSecret, SharedSecret, StaticSecret};
use zeroize::Zeroize;

trait Subject: Sized {
    const NAME: &'static str;
    fn create(secret: &[u8; 32]) -> Self;
    fn try_clone(&self) -> Option<Self>;
    fn use_ref(&self);
    fn try_zeroize(&mut self) -> bool;
    /// the secret byte strings an object created from `secret` holds
    fn secrets(secret: &[u8; 32]) -> Vec<Vec<u8>>;
}

impl Subject for SigningKey {
    const NAME: &'static str = "SigningKey";
    fn create(s: &[u8; 32]) -> Self {
        SigningKey::from_bytes(s)
    }
    fn try_clone(&self) -> Option<Self> {
        Some(self.clone())
    }
    fn use_ref(&self) {
        let sig = self.sign(b"use");
        std::hint::black_box(sig);
        std::hint::black_box(self.verifying_key());
    }
    fn try_zeroize(&mut self) -> bool {
        false
    }
    fn secrets(s: &[u8; 32]) -> Vec<Vec<u8>> {
        vec![s.to_vec()]
    }
}
impl Subject for ExpandedSecretKey {
    const NAME: &'static str = "ExpandedSecretKey";
    fn create(s: &[u8; 32]) -> Self {
        ExpandedSecretKey::from(s)
    }
    fn try_clone(&self) -> Option<Self> {
        None
    }
    fn use_ref(&self) {
        let vk = ed25519_dalek::VerifyingKey::from(self);
        let sig = ed25519_dalek::hazmat::raw_sign::<sha2::Sha512>(self, b"use", &vk);
        std::hint::black_box(sig);
    }
    fn try_zeroize(&mut self) -> bool {
        false
    }
    fn secrets(s: &[u8; 32]) -> Vec<Vec<u8>> {
        let k = eddsa::keygen(s);
        vec![k.a.rem(&l()).to_le32().to_vec(), k.prefix.to_vec()]
    }
}
/// An RNG that holds its 32 scripted bytes inline (no heap), so the harness itself does not
/// put the secret on the heap.
struct InlineRng([u8; 32], usize);
impl rand_core::RngCore for InlineRng {
    fn next_u32(&mut self) -> u32 {
        let mut b = [0u8; 4];
        self.fill_bytes(&mut b);
        u32::from_le_bytes(b)
    }
    fn next_u64(&mut self) -> u64 {
        let mut b = [0u8; 8];
        self.fill_bytes(&mut b);
        u64::from_le_bytes(b)
    }
    fn fill_bytes(&mut self, dest: &mut [u8]) {
        for d in dest.iter_mut() {
            *d = if self.1 < 32 { self.0[self.1] } else { 0 };
            self.1 += 1;
        }
    }
    fn try_fill_bytes(&mut self, dest: &mut [u8]) -> Result<(), rand_core::Error> {
        self.fill_bytes(dest);
        Ok(())
    }
}
impl rand_core::CryptoRng for InlineRng {}

fn their_public() -> PublicKey {
    PublicKey::from([9u8; 32])
}
impl Subject for EphemeralSecret {
    const NAME: &'static str = "EphemeralSecret";
    fn create(s: &[u8; 32]) -> Self {
        EphemeralSecret::random_from_rng(InlineRng(*s, 0))
    }
    fn try_clone(&self) -> Option<Self> {
        None
    }
    fn use_ref(&self) {
        std::hint::black_box(PublicKey::from(self));
    }
    fn try_zeroize(&mut self) -> bool {
        self.zeroize();
        true
    }
    fn secrets(s: &[u8; 32]) -> Vec<Vec<u8>> {
        vec![s.to_vec()]
    }
}
impl Subject for ReusableSecret {
    const NAME: &'static str = "ReusableSecret";
    fn create(s: &[u8; 32]) -> Self {
        ReusableSecret::random_from_rng(InlineRng(*s, 0))
    }
    fn try_clone(&self) -> Option<Self> {
        Some(self.clone())
    }
    fn use_ref(&self) {
        std::hint::black_box(PublicKey::from(self));
        std::hint::black_box(self.diffie_hellman(&their_public()).to_bytes());
    }
    fn try_zeroize(&mut self) -> bool {
        self.zeroize();
        true
    }
    fn secrets(s: &[u8; 32]) -> Vec<Vec<u8>> {
        vec![s.to_vec()]
    }
}
impl Subject for StaticSecret {
    const NAME: &'static str = "StaticSecret";
    fn create(s: &[u8; 32]) -> Self {
        StaticSecret::from(*s)
    }
    fn try_clone(&self) -> Option<Self> {
        Some(self.clone())
    }
    fn use_ref(&self) {
        std::hint::black_box(PublicKey::from(self));
        std::hint::black_box(self.diffie_hellman(&their_public()).to_bytes());
        std::hint::black_box(self.to_bytes());
    }
    fn try_zeroize(&mut self) -> bool {
        self.zeroize();
        true
    }
    fn secrets(s: &[u8; 32]) -> Vec<Vec<u8>> {
        vec![s.to_vec()]
    }
}
impl Subject for SharedSecret {
    const NAME: &'static str = "SharedSecret";
    fn create(s: &[u8; 32]) -> Self {
        StaticSecret::from(*s).diffie_hellman(&their_public())
    }
    fn try_clone(&self) -> Option<Self> {
        None
    }
    fn use_ref(&self) {
        std::hint::black_box(self.to_bytes());
        std::hint::black_box(self.was_contributory());
    }
    fn try_zeroize(&mut self) -> bool {
        self.zeroize();
        true
    }
    fn secrets(s: &[u8; 32]) -> Vec<Vec<u8>> {
        vec![mont::x25519(s, &[9u8; 32]).to_vec()]
    }
}

#[derive(Clone, Copy, Debug, PartialEq, Eq)]
enum Op {
    Create(usize), // which secret
    Clone(usize),
    Use(usize),
    Zeroize(usize),
    Drop(usize),
}

/// Enumerate all op sequences of length <= maxlen over at most 3 registers; execute each with
/// the heap observer armed and check the freed blocks.
fn lifecycles<T: Subject>(ctx: &Ctx, maxlen: usize, secrets: &[[u8; 32]]) {
    // all secret strings any object may hold
    let mut all_secrets: Vec<Vec<u8>> = Vec::new();
    for s in secrets {
        all_secrets.extend(T::secrets(s));
    }
    let mut n_seq = 0u64;
    let mut n_blocks = 0u64;
    // DFS over sequences; `live` = number of live registers (registers are a stack of slots)
    fn rec<T: Subject>(ctx: &Ctx, seq: &mut Vec<Op>, live: &mut Vec<bool>, maxlen: usize, nsecrets: usize, out: &mut Vec<Vec<Op>>) {
        out.push(seq.clone());
        if seq.len() >= maxlen {
            return;
        }
        let slots = live.len();
        let mut menu: Vec<Op> = Vec::new();
        if slots < 3 {
            for s in 0..nsecrets {
                menu.push(Op::Create(s));
            }
        }
        for r in 0..slots {
            if live[r] {
                if slots < 3 {
                    menu.push(Op::Clone(r));
                }
                menu.push(Op::Use(r));
                menu.push(Op::Zeroize(r));
                menu.push(Op::Drop(r));
            }
        }
        for op in menu {
            seq.push(op);
            let saved = live.clone();
            match op {
                Op::Create(_) | Op::Clone(_) => live.push(true),
                Op::Drop(r) => live[r] = false,
                _ => {}
            }
            rec::<T>(ctx, seq, live, maxlen, nsecrets, out);
            *live = saved;
            seq.pop();
        }
    }
    let mut seqs = Vec::new();
    rec::<T>(ctx, &mut Vec::new(), &mut Vec::new(), maxlen, secrets.len(), &mut seqs);
    for seq in &seqs {
        if seq.is_empty() {
            continue;
        }
        ctx.eval(1);
        n_seq += 1;
        let case = json!({"kind": "lifecycle", "type": T::NAME, "ops": seq.iter().map(|o| format!("{:?}", o)).collect::<Vec<_>>()});
        ctx.case(&case.to_string());
        let r = guarded(|| {
            observe(|| {
                let mut regs: Vec<Option<Box<T>>> = Vec::with_capacity(4);
                for op in seq {
                    match *op {
                        Op::Create(s) => regs.push(Some(Box::new(T::create(&secrets[s])))),
                        Op::Clone(r) => {
                            let c = regs[r].as_ref().and_then(|b| b.try_clone()).map(Box::new);
                            regs.push(c);
                        }
                        Op::Use(r) => {
                            if let Some(b) = regs[r].as_ref() {
                                b.use_ref()
                            }
                        }
                        Op::Zeroize(r) => {
                            if let Some(b) = regs[r].as_mut() {
                                b.try_zeroize();
                            }
                        }
                        Op::Drop(r) => regs[r] = None,
                    }
                }
                // every remaining box is dropped here
                drop(regs);
            })
        });
        match r {
            Err(e) => ctx.violation(&format!("drop.{}", T::NAME), &format!("panic: {}", e), case),
            Ok(((), log)) => {
                let boxes: Vec<&Freed> = log.iter().filter(|b| b.size == std::mem::size_of::<T>()).collect();
                n_blocks += boxes.len() as u64;
                for s in &all_secrets {
                    if let Some((bi, off)) = find_leak(&log, s, 8) {
                        ctx.violation(
                            &format!("drop.{}", T::NAME),
                            &format!("a freed heap block of {} bytes still contains secret bytes (offset {} of secret {})", log[bi].size, off, hex(&s[..4])),
                            case.clone(),
                        );
                        break;
                    }
                }
            }
        }
    }
    ctx.states.fetch_add(n_seq, std::sync::atomic::Ordering::Relaxed);
    ctx.transitions.fetch_add(seqs.iter().map(|s| s.len() as u64).sum::<u64>(), std::sync::atomic::Ordering::Relaxed);
    ctx.count(&format!("lifecycles_{}", T::NAME), n_seq);
    ctx.count(&format!("freed_boxes_{}", T::NAME), n_blocks);
    ctx.nontriv(n_seq);
}

pub fn run(ctx: &Ctx) {
    let quick = ctx.quick();
    let maxlen = if quick { 3 } else { 4 };
    ctx.bound("lifecycle_max_ops", json!(maxlen));
    let secrets: Vec<[u8; 32]> = vec![[0x11; 32], {
        let mut s = [0u8; 32];
        for i in 0..32 {
            s[i] = 0xa0 + i as u8;
        }
        s
    }];
    // ---- (i) object lifecycles
    lifecycles::<SigningKey>(ctx, maxlen, &secrets);
    lifecycles::<ExpandedSecretKey>(ctx, maxlen, &secrets);
    lifecycles::<EphemeralSecret>(ctx, maxlen, &secrets);
    lifecycles::<ReusableSecret>(ctx, maxlen, &secrets);
    lifecycles::<StaticSecret>(ctx, maxlen, &secrets);
    lifecycles::<SharedSecret>(ctx, maxlen, &secrets);
    // positive control: the observer sees secrets in a type that does *not* wipe
    {
        let (_, log) = observe(|| {
            let b = Box::new(secrets[1]);
            std::hint::black_box(&b);
            drop(b);
        });
        if find_leak(&log, &secrets[1], 8).is_none() {
            ctx.note("MACHINERY: heap observer did not see an unwiped boxed array");
            ctx.violation("machinery.heap_observer", "positive control failed: the observer is blind", json!({"kind": "control"}));
        } else {
            ctx.count("positive_control_unwiped_box_seen", 1);
        }
    }
    // ---- (ii) explicit zeroisation
    {
        for x in alpha::sc_reduced(40) {
            ctx.eval(1);
            let mut s = real::scalar(&x);
            s.zeroize();
            if s != Scalar::ZERO || s.to_bytes() != [0u8; 32] {
                ctx.violation("zeroize.Scalar", "not zero after zeroize", json!({"kind": "zeroize", "scalar": x.hex()}));
            }
        }
        for k in c03::pool(if quick { 4 } else { 10 }, true) {
            ctx.eval(1);
            let case = json!({"kind": "zeroize", "point": k.name});
            ctx.case(&case.to_string());
            let mut p = k.real;
            p.zeroize();
            let c = c03::coords_of(&p);
            let idc = c03::coords_of(&EdwardsPoint::identity());
            if p.compress().0 != ed::ID.compress() || c != idc {
                ctx.violation("zeroize.EdwardsPoint", "not the identity (encoding and raw limbs) after zeroize", case.clone());
            }
            let mut ce = k.real.compress();
            ce.zeroize();
            if ce != CompressedEdwardsY::identity() {
                ctx.violation("zeroize.CompressedEdwardsY", "not the identity encoding", case.clone());
            }
            let mut m = k.real.to_montgomery();
            m.zeroize();
            if m != MontgomeryPoint([0u8; 32]) || m.0 != [0u8; 32] {
                ctx.violation("zeroize.MontgomeryPoint", "not zero", case.clone());
            }
            if k.aj.as_ref().unwrap().1 == 0 {
                let mut r = CompressedRistretto(crate::model::ris::encode(&k.pt)).decompress().unwrap();
                r.zeroize();
                let mut cr = CompressedRistretto(crate::model::ris::encode(&k.pt));
                cr.zeroize();
                if r != RistrettoPoint::identity() || r.compress().0 != [0u8; 32] || cr.0 != [0u8; 32] {
                    ctx.violation("zeroize.RistrettoPoint", "not the identity", case.clone());
                }
                use group::cofactor::CofactorGroup;
                let mut sp: curve25519_dalek::edwards::SubgroupPoint = Option::from(k.real.into_subgroup()).unwrap();
                sp.zeroize();
                if EdwardsPoint::from(sp).compress().0 != ed::ID.compress() {
                    ctx.violation("zeroize.SubgroupPoint", "not the identity", case.clone());
                }
            }
        }
    }
    // ---- (iii) freed heap inside constant-time multiscalar multiplication and batch inversion
    // (190, 500, 800: the sizes at which the *variable-time* front end changes algorithm; the constant-time one must
    // keep using the code that wipes its buffers)
    let sizes: Vec<usize> = if quick { vec![0, 1, 2, 3, 4, 5, 8, 17, 190] } else { vec![0, 1, 2, 3, 4, 5, 6, 7, 8, 33, 64, 189, 190, 500, 800] };
    ctx.bound("multiscalar_sizes", json!(sizes));
    let pool: Vec<U> = {
        let lm = l();
        vec![U::ONE, lm.sub(&U::ONE), U::from_le(&[0x77u8; 32]).rem(&lm), U::pow2(252).sub(&U::ONE), U::from_le(&[0xc3u8; 32]).rem(&lm)]
    };
    let pts = c03::pool(3, true);
    let mut blocks_seen = 0u64;
    for &n in &sizes {
        let points: Vec<EdwardsPoint> = (0..n).map(|i| pts[i % pts.len()].real).collect();
        // secret vectors: constant vectors of each pool scalar, and a rotating pattern
        let mut vecs: Vec<Vec<U>> = pool.iter().map(|s| vec![*s; n]).collect();
        vecs.push((0..n).map(|i| pool[i % pool.len()]).collect());
        vecs.push((0..n).map(|i| pool[(i * 2 + 1) % pool.len()]).collect());
        // every front end of the constant-time multiscalar code: Edwards and Ristretto, scalars by reference and by value
        let rpoints: Vec<curve25519_dalek::ristretto::RistrettoPoint> = {
            let rp = crate::props::c06::rpool(3);
            (0..n).map(|i| rp[i % rp.len()].real).collect()
        };
        // the large sizes are there for the algorithm switch only: two call shapes, three secret vectors, and the
        // per-scalar search restricted to the first few scalars (the differential comparison covers all of them)
        let big = n >= 100;
        if big {
            vecs.truncate(2);
            vecs.push((0..n).map(|i| pool[(i * 2 + 1) % pool.len()]).collect());
        }
        for shape in 0..8u8 {
        if big && shape != 0 && shape != 2 {
            continue;
        }
        let shape_name = ["EdwardsPoint::multiscalar_mul(&scalars)", "EdwardsPoint::multiscalar_mul(scalars by value)", "RistrettoPoint::multiscalar_mul(&scalars)", "RistrettoPoint::multiscalar_mul(scalars by value)",
            "EdwardsPoint::multiscalar_mul(iterators with an inexact size hint)", "RistrettoPoint::multiscalar_mul(iterators with an inexact size hint)",
            "EdwardsPoint::multiscalar_mul(points iterator panics on its last item)", "RistrettoPoint::multiscalar_mul(points iterator panics on its last item)"][shape as usize];
        let mut logs: Vec<Vec<Freed>> = Vec::new();
        for v in &vecs {
            ctx.eval(1);
            let scalars: Vec<Scalar> = v.iter().map(real::scalar).collect();
            let case = json!({"kind": "heap_multiscalar", "call": shape_name, "n": n, "scalars": v.iter().map(|x| x.hex()).collect::<Vec<_>>()});
            ctx.case(&case.to_string());
            use curve25519_dalek::ristretto::RistrettoPoint;
            match guarded(|| observe(|| match shape {
                0 => EdwardsPoint::multiscalar_mul(scalars.iter(), points.iter()).compress().0,
                1 => EdwardsPoint::multiscalar_mul(scalars.iter().copied(), points.iter()).compress().0,
                2 => RistrettoPoint::multiscalar_mul(scalars.iter(), rpoints.iter()).compress().0,
                3 => RistrettoPoint::multiscalar_mul(scalars.iter().copied(), rpoints.iter()).compress().0,
                // filtered iterators report (0, Some(n)): the front end refuses them with an assertion before doing any
                // secret-dependent work; if a version of it goes ahead instead, what it frees is judged like the rest
                4 => EdwardsPoint::multiscalar_mul(scalars.iter().filter(|_| std::hint::black_box(true)), points.iter().filter(|_| std::hint::black_box(true))).compress().0,
                5 => RistrettoPoint::multiscalar_mul(scalars.iter().filter(|_| std::hint::black_box(true)), rpoints.iter().filter(|_| std::hint::black_box(true))).compress().0,
                // an exact-size points iterator whose last item panics (a caller decoding points lazily and unwrapping):
                // whatever holds secret digits at that moment must still be wiped while the stack unwinds
                6 => EdwardsPoint::multiscalar_mul(scalars.iter(), points.iter().enumerate().map(|(i, p)| if i + 1 == n { panic!("caller's iterator panics") } else { *p })).compress().0,
                _ => RistrettoPoint::multiscalar_mul(scalars.iter(), rpoints.iter().enumerate().map(|(i, p)| if i + 1 == n { panic!("caller's iterator panics") } else { *p })).compress().0,
            })) {
                Err(_) if shape == 4 || shape == 5 => {
                    ctx.count("inexact_size_hint_refused_by_assertion", 1);
                }
                Err(_) if shape >= 6 && n > 0 => {
                    ctx.count("calls_unwound_by_a_panicking_points_iterator", 1);
                    let log = crate::heap::take_log();
                    for (i, s) in scalars.iter().enumerate() {
                        let digits: Vec<u8> = curve25519_dalek::verif::as_radix_16(s).iter().map(|d| *d as u8).collect();
                        if let Some((bi, off)) = find_leak(&log, &digits, 16).or_else(|| find_leak(&log, s.as_bytes(), 8)) {
                            ctx.violation("heap.multiscalar_mul.unwind", &format!("while unwinding from a panic in the caller's points iterator, a block of {} bytes holding digits/bytes of secret scalar {} (offset {}) was freed unwiped", log[bi].size, i, off), case.clone());
                            break;
                        }
                    }
                }
                Err(e) => ctx.violation("heap.multiscalar_mul", &format!("panic: {}", e), case),
                Ok((res, log)) => {
                    std::hint::black_box(res);
                    blocks_seen += log.len() as u64;
                    // no freed block may contain the radix-16 digit string or the bytes of any scalar
                    for (i, s) in scalars.iter().enumerate().take(if big { 3 } else { usize::MAX }) {
                        let digits: Vec<u8> = curve25519_dalek::verif::as_radix_16(s).iter().map(|d| *d as u8).collect();
                        let naf: Vec<u8> = curve25519_dalek::verif::non_adjacent_form(s, 5).iter().map(|d| *d as u8).collect();
                        if let Some((bi, off)) = find_leak(&log, &digits, 16).or_else(|| find_leak(&log, s.as_bytes(), 8)).or_else(|| find_leak(&log, &naf[..64], 32)) {
                            ctx.violation(
                                "heap.multiscalar_mul",
                                &format!("a freed block of {} bytes contains digits/bytes of secret scalar {} (offset {})", log[bi].size, i, off),
                                case.clone(),
                            );
                            break;
                        }
                    }
                    logs.push(log);
                }
            }
        }
        // differential: the freed blocks must not depend on the secrets
        for (i, lg) in logs.iter().enumerate().skip(1) {
            if *lg != logs[0] {
                let which = lg.iter().zip(logs[0].iter()).position(|(a, b)| a != b);
                ctx.violation(
                    "heap.multiscalar_mul.differential",
                    &format!("freed blocks differ between two secret vectors (n = {}, vector {} vs 0, first differing block {:?} of sizes {:?})", n, i, which, lg.iter().map(|b| b.size).collect::<Vec<_>>()),
                    json!({"kind": "heap_multiscalar_diff", "call": shape_name, "n": n, "vector": i}),
                );
            }
        }
        }
        // Scalar::batch_invert
        let mut blogs: Vec<Vec<Freed>> = Vec::new();
        for v in &vecs {
            ctx.eval(1);
            let mut scalars: Vec<Scalar> = v.iter().map(real::scalar).collect();
            let case = json!({"kind": "heap_batch_invert", "n": n, "scalars": v.iter().map(|x| x.hex()).collect::<Vec<_>>()});
            ctx.case(&case.to_string());
            let r_int = U::pow2(curve25519_dalek::verif::SC_LIMB_BITS as usize * curve25519_dalek::verif::SC_LIMBS);
            match guarded(|| observe(|| Scalar::batch_invert(&mut scalars))) {
                Err(e) => ctx.violation("heap.batch_invert", &format!("panic: {}", e), case),
                Ok((res, log)) => {
                    std::hint::black_box(res);
                    blocks_seen += log.len() as u64;
                    // partial products in Montgomery form: acc_k = (s_0 ... s_{k-1}) * R mod l
                    let mut acc = Zl::new(&r_int);
                    let mut leaked = false;
                    for s in v {
                        acc = acc.mul(&Zl(*s));
                        // limb image of acc (the scratch vector holds UnpackedScalar limbs)
                        let limbs: Vec<u8> = {
                            let bits = curve25519_dalek::verif::SC_LIMB_BITS as usize;
                            let mut out = Vec::new();
                            for i in 0..curve25519_dalek::verif::SC_LIMBS {
                                let limb = acc.0.shr(bits * i).low_bits(bits).low_u64();
                                if bits == 52 {
                                    out.extend_from_slice(&limb.to_le_bytes());
                                } else {
                                    out.extend_from_slice(&(limb as u32).to_le_bytes());
                                }
                            }
                            out
                        };
                        if find_leak(&log, &limbs, 8).is_some() || find_leak(&log, &s.to_le32(), 8).is_some() {
                            leaked = true;
                        }
                    }
                    if leaked && n > 0 {
                        ctx.violation("heap.batch_invert", "a freed block contains a Montgomery-form partial product or a secret scalar", case.clone());
                    }
                    blogs.push(log);
                }
            }
        }
        for (i, lg) in blogs.iter().enumerate().skip(1) {
            if *lg != blogs[0] {
                ctx.violation("heap.batch_invert.differential", &format!("freed blocks differ between two secret vectors (n = {}, vector {})", n, i), json!({"kind": "heap_batch_invert_diff", "n": n, "vector": i}));
            }
        }
    }
    ctx.count("freed_blocks_observed_inside_calls", blocks_seen);
    ctx.sample_tag("heap", json!({"call": "EdwardsPoint::multiscalar_mul", "n": 3, "check": "freed blocks identical for 7 secret vectors; none contains a radix-16 digit string"}));
}
