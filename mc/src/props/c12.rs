//! C12 — every precomputed constant and table entry equals its definition (complete
//! enumeration of a finite space).

use crate::ev::{guarded, Ctx};
use crate::model::ed::{self, Pt};
use crate::model::fp::{self, Fp};
use crate::model::nat::{hex, U};
use crate::model::ris;
use crate::model::zl::{l, Zl};
use crate::props::c01::spec;
use crate::real;
use curve25519_dalek::constants as kc;
use curve25519_dalek::edwards::EdwardsPoint;
use curve25519_dalek::scalar::Scalar;
use curve25519_dalek::traits::{Identity, IsIdentity};
use curve25519_dalek::verif as hook;
use serde_json::json;

const POS10: [usize; 10] = [0, 26, 51, 77, 102, 128, 153, 179, 204, 230];

fn val10(l: &[u32; 10]) -> Fp {
    let mut acc = U::ZERO;
    for i in 0..10 {
        acc = acc.add(&U::from_u64(l[i] as u64).shl(POS10[i]));
    }
    Fp::new(&acc)
}
#[allow(dead_code)]
fn val5(l: &[u64; 5]) -> Fp {
    let mut acc = U::ZERO;
    for i in 0..5 {
        acc = acc.add(&U::from_u64(l[i]).shl(51 * i));
    }
    Fp::new(&acc)
}

/// (y+x, y-x, 2dxy) of a model point
fn niels(p: &Pt) -> [Fp; 3] {
    [p.y.add(&p.x), p.y.sub(&p.x), fp::d().add(&fp::d()).mul(&p.x).mul(&p.y)]
}

/// Check a cached-point lane quadruple (A, B, C, D) = lambda * (y-x, y+x, 2, 2dxy).
fn cached_matches(lanes: &[Fp; 4], p: &Pt) -> bool {
    let c = lanes[2];
    if c.is_zero() {
        return false;
    }
    let half_c_inv = c.inv().mul(&Fp::from_u64(2)); // 2/C = 1/lambda
    lanes[0].mul(&half_c_inv) == p.y.sub(&p.x)
        && lanes[1].mul(&half_c_inv) == p.y.add(&p.x)
        && lanes[3].mul(&half_c_inv) == fp::d().add(&fp::d()).mul(&p.x).mul(&p.y)
}

pub fn run(ctx: &Ctx) {
    let sp = spec();
    let mut n_entries = 0u64;
    macro_rules! ck {
        ($key:expr, $cond:expr, $($m:tt)*) => {{
            ctx.eval(1);
            ctx.case($key);
            n_entries += 1;
            if !($cond) {
                ctx.violation($key, &format!($($m)*), json!({"kind": "constant", "which": $key, "detail": format!($($m)*)}));
            }
        }};
    }
    let fe_val = |f: &hook::Fe| -> Fp { sp.value(&f.limbs()) };
    // value equality through both the canonical bytes and the raw limbs; limbs within the serial
    // headroom of the limb width (2^54 / b < 1.75).  The fiat builds reuse the serial constants
    // files, whose table entries hold unreduced sums such as y+x with limbs up to ~2^51.7: these
    // exceed fiat-crypto's *tight* bound but are what the (value-level) property is about
    // (first version demanded the tight bound here and raised 256 false alarms on fiat64).
    let generic_ok = |l: &[u64]| -> bool {
        (0..sp.n).all(|i| if sp.n == 5 { l[i] < (1u64 << 54) } else { (l[i] as f64) < ((1u64 << sp.width[i]) as f64) * 2f64.powf(1.75) })
    };
    let fe_ok = |f: &hook::Fe, want: &Fp| -> bool { f.as_bytes() == want.to_bytes() && fe_val(f) == *want && generic_ok(&f.limbs()) };

    // ---- field constants of the selected serial backend
    let d = fp::d();
    let rc = ris::consts();
    for (name, f) in hook::field_constants() {
        let want: Fp = match name {
            "ZERO" => Fp::ZERO,
            "ONE" => Fp::ONE,
            "FE_MINUS_ONE" | "MINUS_ONE" => Fp::ONE.neg(),
            "EDWARDS_D" => d,
            "EDWARDS_D2" => d.add(&d),
            "ONE_MINUS_EDWARDS_D_SQUARED" => Fp::ONE.sub(&d.sq()),
            "EDWARDS_D_MINUS_ONE_SQUARED" => d.sub(&Fp::ONE).sq(),
            "SQRT_AD_MINUS_ONE" => rc.sqrt_ad_minus_one,
            "INVSQRT_A_MINUS_D" => rc.invsqrt_a_minus_d,
            "SQRT_M1" => fp::sqrt_m1(),
            "APLUS2_OVER_FOUR" => Fp::from_u64(486662 + 2).mul(&Fp::from_u64(4).inv()),
            "MONTGOMERY_A" => Fp::from_u64(486662),
            "MONTGOMERY_A_NEG" => Fp::from_u64(486662).neg(),
            _ => {
                ck!("const.field.unknown", false, "constant {} has no definition in the model", name);
                continue;
            }
        };
        ck!(&format!("const.field.{}", name), fe_ok(&f, &want), "{} = {} (limbs {:?}) but its definition gives {}", name, hex(&f.as_bytes()), f.limbs(), hex(&want.to_bytes()));
        ctx.record(&format!("const.field/{}", name), &f.as_bytes());
    }
    // defining equations, independently of the RFC decimal values
    ck!("const.eq.sqrt_ad_minus_one", rc.sqrt_ad_minus_one.sq() == d.neg().sub(&Fp::ONE), "sqrt(ad-1)^2 = ad-1");
    ck!("const.eq.aplus2over4", Fp::from_u64(486662 + 2).mul(&Fp::from_u64(4).inv()) == Fp::from_u64(121666), "(A+2)/4 = 121666");

    // ---- scalar constants
    {
        let (sc, lfactor) = hook::scalar_constants();
        let bits = hook::SC_LIMB_BITS as usize;
        let val = |u: &hook::Usc| -> U {
            let mut acc = U::ZERO;
            for (i, x) in u.limbs().iter().enumerate() {
                acc = acc.add(&U::from_u64(*x).shl(bits * i));
            }
            acc
        };
        let r_int = U::pow2(bits * hook::SC_LIMBS);
        for (name, u) in &sc {
            let want = match *name {
                "L" => l(),
                "R" => r_int.rem(&l()),
                "RR" => Zl::new(&r_int).mul(&Zl::new(&r_int)).0,
                _ => U::ZERO,
            };
            let limbs_ok = u.limbs().iter().all(|x| *x >> bits == 0);
            ck!(&format!("const.scalar.{}", name), val(u) == want && limbs_ok, "{} limbs {:?} denote {} but the definition gives {}", name, u.limbs(), val(u).hex(), want.hex());
        }
        // LFACTOR * L = -1 mod 2^bits
        let prod = U::from_u64(lfactor).mul(&l()).low_bits(bits);
        ck!("const.scalar.LFACTOR", prod == U::pow2(bits).sub(&U::ONE), "LFACTOR * l mod 2^{} = {} (want -1)", bits, prod.hex());
        ck!("const.scalar.BASEPOINT_ORDER", U::from_le(kc::BASEPOINT_ORDER.as_bytes()) == l(), "BASEPOINT_ORDER");
        ck!("const.scalar.BASEPOINT_ORDER_PRIVATE", U::from_le(hook::basepoint_order_private().as_bytes()) == l(), "BASEPOINT_ORDER_PRIVATE");
        ck!("const.scalar.ZERO_ONE", U::from_le(Scalar::ZERO.as_bytes()).is_zero() && U::from_le(Scalar::ONE.as_bytes()) == U::ONE, "Scalar::ZERO / ONE");
        // the scalar-field constants shipped through the ff traits (`group` feature): a textual and five
        // numeric forms of facts about l, nothing in the crates reads them, so only their definitions decide
        {
            use ff::{Field, PrimeField};
            let lm = l();
            let s_exp = <Scalar as PrimeField>::S as usize;
            let zl = |s: &Scalar| Zl(U::from_le(s.as_bytes()));
            let canon = |s: &Scalar| U::from_le(s.as_bytes()) < lm;
            let modulus = <Scalar as PrimeField>::MODULUS;
            ck!("const.scalar.ff.MODULUS", modulus.starts_with("0x") && modulus[2..].trim_start_matches('0').eq_ignore_ascii_case(lm.hex().trim_start_matches('0')), "PrimeField::MODULUS = {} but l = 0x{}", modulus, lm.hex());
            ck!("const.scalar.ff.NUM_BITS", <Scalar as PrimeField>::NUM_BITS as usize == lm.bits() && <Scalar as PrimeField>::CAPACITY as usize == lm.bits() - 1, "NUM_BITS {} CAPACITY {} but l has {} bits", <Scalar as PrimeField>::NUM_BITS, <Scalar as PrimeField>::CAPACITY, lm.bits());
            let t = lm.sub(&U::ONE).shr(s_exp);
            ck!("const.scalar.ff.S", lm.sub(&U::ONE).low_bits(s_exp).is_zero() && t.bit(0), "2^S = 2^{} does not exactly divide l-1", s_exp);
            let two_inv = <Scalar as PrimeField>::TWO_INV;
            ck!("const.scalar.ff.TWO_INV", canon(&two_inv) && zl(&two_inv).mul(&Zl::from_u64(2)) == Zl::ONE, "TWO_INV = {}", hex(two_inv.as_bytes()));
            let g = <Scalar as PrimeField>::MULTIPLICATIVE_GENERATOR;
            let rou = <Scalar as PrimeField>::ROOT_OF_UNITY;
            let rou_inv = <Scalar as PrimeField>::ROOT_OF_UNITY_INV;
            let delta = <Scalar as PrimeField>::DELTA;
            ck!("const.scalar.ff.MULTIPLICATIVE_GENERATOR", canon(&g) && zl(&g).pow(&lm.sub(&U::ONE).shr(1)) == Zl::ONE.neg(), "MULTIPLICATIVE_GENERATOR = {} is a square", hex(g.as_bytes()));
            ck!("const.scalar.ff.ROOT_OF_UNITY", canon(&rou) && zl(&rou) == zl(&g).pow(&t), "ROOT_OF_UNITY = {} is not g^((l-1)/2^S)", hex(rou.as_bytes()));
            ck!("const.scalar.ff.ROOT_OF_UNITY_INV", canon(&rou_inv) && zl(&rou).mul(&zl(&rou_inv)) == Zl::ONE, "ROOT_OF_UNITY_INV = {}", hex(rou_inv.as_bytes()));
            ck!("const.scalar.ff.DELTA", canon(&delta) && zl(&delta) == zl(&g).pow(&U::pow2(s_exp)), "DELTA = {} is not g^(2^S)", hex(delta.as_bytes()));
            ck!("const.scalar.ff.ZERO_ONE", U::from_le(<Scalar as Field>::ZERO.as_bytes()).is_zero() && U::from_le(<Scalar as Field>::ONE.as_bytes()) == U::ONE, "Field::ZERO / ONE");
        }
    }

    // ---- public point constants
    let b = ed::basepoint();
    {
        let c = hook::edwards_coords(&kc::ED25519_BASEPOINT_POINT);
        let (x, y, z, t) = (fe_val(&c[0]), fe_val(&c[1]), fe_val(&c[2]), fe_val(&c[3]));
        ck!("const.point.ED25519_BASEPOINT_POINT", !z.is_zero() && x.mul(&z.inv()) == b.x && y.mul(&z.inv()) == b.y && x.mul(&y) == z.mul(&t), "basepoint coordinates");
        ck!("const.point.ED25519_BASEPOINT_COMPRESSED", kc::ED25519_BASEPOINT_COMPRESSED.0 == b.compress() && kc::ED25519_BASEPOINT_POINT.compress() == kc::ED25519_BASEPOINT_COMPRESSED, "compressed basepoint");
        ck!("const.point.X25519_BASEPOINT", kc::X25519_BASEPOINT.0 == Fp::from_u64(9).to_bytes() && kc::ED25519_BASEPOINT_POINT.to_montgomery() == kc::X25519_BASEPOINT && b.to_montgomery_u() == Fp::from_u64(9), "X25519 basepoint");
        ck!("const.point.X25519_BASEPOINT_BYTES", x25519_dalek::X25519_BASEPOINT_BYTES == Fp::from_u64(9).to_bytes(), "X25519_BASEPOINT_BYTES");
        ck!("const.point.RISTRETTO_BASEPOINT", kc::RISTRETTO_BASEPOINT_COMPRESSED.0 == ris::encode(&b) && kc::RISTRETTO_BASEPOINT_POINT.compress() == kc::RISTRETTO_BASEPOINT_COMPRESSED && hook::ristretto_inner(&kc::RISTRETTO_BASEPOINT_POINT).compress().0 == b.compress(), "Ristretto basepoint");
        let lb = guarded(|| (&kc::ED25519_BASEPOINT_POINT * &kc::BASEPOINT_ORDER).is_identity());
        ck!("const.point.order", lb == Ok(true) && !kc::ED25519_BASEPOINT_POINT.is_identity() && !kc::ED25519_BASEPOINT_POINT.is_small_order(), "[l]B = 0, B != 0");
        // EIGHT_TORSION is exactly E[8] in the documented order
        let t8 = ed::torsion();
        let orders = [1usize, 8, 4, 8, 2, 8, 4, 8];
        for j in 0..8 {
            let real = kc::EIGHT_TORSION[j];
            let c = hook::edwards_coords(&real);
            let (x, y, z, t) = (fe_val(&c[0]), fe_val(&c[1]), fe_val(&c[2]), fe_val(&c[3]));
            let aff_ok = !z.is_zero() && x.mul(&z.inv()) == t8[j].x && y.mul(&z.inv()) == t8[j].y && x.mul(&y) == z.mul(&t);
            // order by repeated real addition
            let mut q = real;
            let mut ord = 1;
            while !q.is_identity() && ord < 20 {
                q = &q + &real;
                ord += 1;
            }
            ck!(&format!("const.point.EIGHT_TORSION[{}]", j), aff_ok && ord == orders[j] && real.compress().0 == t8[j].compress(), "EIGHT_TORSION[{}]: coordinates ok {}, order {}", j, aff_ok, ord);
            ctx.record(&format!("const.EIGHT_TORSION/{}", j), &real.compress().0);
            // the constants used as operands (reads every coordinate incl. T), public API only
            let bt = (&kc::ED25519_BASEPOINT_POINT + &real).compress().0;
            ck!(&format!("const.point.B+EIGHT_TORSION[{}]", j), bt == b.add(&t8[j]).compress(), "B + EIGHT_TORSION[{}]", j);
            ctx.record(&format!("const.B+EIGHT_TORSION/{}", j), &bt);
            for i in 0..8 {
                let s = (&kc::EIGHT_TORSION[i] + &real).compress().0;
                let d = (&kc::EIGHT_TORSION[i] - &real).compress().0;
                ck!(&format!("const.point.EIGHT_TORSION[{}]+[{}]", i, j), s == t8[(i + j) % 8].compress() && d == t8[(8 + i - j) % 8].compress(), "EIGHT_TORSION[{}] +- EIGHT_TORSION[{}]", i, j);
                ctx.record(&format!("const.EIGHT_TORSION.add/{}/{}", i, j), &s);
            }
            let m3 = (&real * &Scalar::from(3u8)).compress().0;
            ck!(&format!("const.point.3*EIGHT_TORSION[{}]", j), m3 == t8[(3 * j) % 8].compress(), "3 * EIGHT_TORSION[{}]", j);
            ctx.record(&format!("const.EIGHT_TORSION.mul3/{}", j), &m3);
        }
        ck!("const.point.identity", EdwardsPoint::identity().compress().0 == ed::ID.compress(), "identity");
    }
    #[cfg(feature = "ed")]
    ck!("const.len.ed25519", ed25519_dalek::SIGNATURE_LENGTH == 64 && ed25519_dalek::SECRET_KEY_LENGTH == 32 && ed25519_dalek::PUBLIC_KEY_LENGTH == 32 && ed25519_dalek::KEYPAIR_LENGTH == 64, "ed25519 length constants");

    // ---- the fixed-base table: 32 x 8 entries, j * 256^i * B
    #[cfg(feature = "tables")]
    {
        let ents = hook::basepoint_table_entries();
        let rents = hook::ristretto_basepoint_table_entries();
        ck!("table.basepoint.len", ents.len() == 256 && rents.len() == 256, "table sizes");
        let mut base = b; // 256^i * B
        for i in 0..32usize {
            let mut m = ed::ID;
            for j in 1..=8usize {
                m = m.add(&base); // j * 256^i * B by repeated affine addition
                let want = niels(&m);
                let e = &ents[8 * i + (j - 1)];
                let ok = (0..3).all(|k| fe_ok(&e[k], &want[k]));
                ck!(&format!("table.basepoint[{}][{}]", i, j), ok, "entry ({}, {}) is not {} * 256^{} * B", i, j, j, i);
                let re = &rents[8 * i + (j - 1)];
                ck!(&format!("table.ristretto_basepoint[{}][{}]", i, j), (0..3).all(|k| re[k].limbs() == e[k].limbs()), "Ristretto table entry ({}, {}) differs from the Edwards table", i, j);
                // through the API: scalar j*256^i selects exactly this entry (j <= 7) or it and (i, 1) negated/carry (j = 8)
                let s = U::from_u64(j as u64).shl(8 * i);
                if s.bits() <= 255 {
                    let sc = hook::scalar_from_raw_bytes(s.to_le32());
                    let got = guarded(|| (kc::ED25519_BASEPOINT_TABLE * &sc).compress().0);
                    ck!(&format!("table.basepoint.select[{}][{}]", i, j), got == Ok(m.compress()), "mul_base({} * 256^{})", j, i);
                    if let Ok(g) = &got {
                        ctx.record(&format!("T:ed.basepoint_table.select/{}/{}", i, j), g);
                    }
                    // negated selection: 16^(2i+1) - j*16^(2i)  (digits -j, +1)
                    let sneg = U::pow2(4 * (2 * i + 1)).sub(&U::from_u64(j as u64).shl(8 * i));
                    if sneg.bits() <= 255 && i < 31 {
                        let want_neg = base.mul(&U::from_u64(16 - j as u64));
                        let got = guarded(|| (kc::ED25519_BASEPOINT_TABLE * &hook::scalar_from_raw_bytes(sneg.to_le32())).compress().0);
                        ck!(&format!("table.basepoint.select_neg[{}][{}]", i, j), got == Ok(want_neg.compress()), "mul_base(16^{} - {} * 256^{})", 2 * i + 1, j, i);
                    }
                }
            }
            for _ in 0..8 {
                base = base.dbl();
            }
        }
        // ---- affine odd multiples (serial vartime double-base table)
        let odd = hook::affine_odd_multiples_entries();
        ck!("table.affine_odd.len", odd.len() == 64, "size");
        let b2 = b.dbl();
        let mut m = b;
        for i in 0..64usize {
            let want = niels(&m);
            ck!(&format!("table.affine_odd[{}]", i), (0..3).all(|k| fe_ok(&odd[i][k], &want[k])), "entry {} is not {} * B", i, 2 * i + 1);
            m = m.add(&b2);
        }
    }
    // selection through the API: 0*A + k*B for odd k < 128 and the "negative" digits, on the
    // implementation the dispatcher currently selects (the check is run once per dispatch)
    {
        let a = real::real_torsion(1);
        for k in (1u64..128).step_by(2) {
            let want = ed::mul_base(&U::from_u64(k));
            let got = guarded(|| EdwardsPoint::vartime_double_scalar_mul_basepoint(&Scalar::ZERO, &a, &Scalar::from(k)).compress().0);
            ck!(&format!("table.odd_lookup.select[{}]", k), got == Ok(want.compress()), "0*A + {}*B on dispatch {}", k, ctx.dispatch);
            if let Ok(g) = &got {
                ctx.record(&format!("ed.vartime_double_base.b/{}", k), g);
            }
            // 256 + k: digit k is added to a non-identity accumulator (reads the table entry's 2dxy)
            let sp = U::from_u64(256 + k);
            let gotp = guarded(|| EdwardsPoint::vartime_double_scalar_mul_basepoint(&Scalar::ZERO, &a, &real::scalar(&sp)).compress().0);
            ck!(&format!("table.odd_lookup.select_acc[{}]", k), gotp == Ok(ed::mul_base(&sp).compress()), "0*A + (256+{})*B on dispatch {}", k, ctx.dispatch);
            if let Ok(g) = &gotp {
                ctx.record(&format!("ed.vartime_double_base.b/{}", 256 + k), g);
            }
            // 256 - k: NAF(8) digits (-k, then +1 at position 8)
            let s = U::from_u64(256 - k);
            let got = guarded(|| EdwardsPoint::vartime_double_scalar_mul_basepoint(&Scalar::ZERO, &a, &real::scalar(&s)).compress().0);
            ck!(&format!("table.odd_lookup.select_neg[{}]", k), got == Ok(ed::mul_base(&s).compress()), "0*A + (256-{})*B on dispatch {}", k, ctx.dispatch);
            if let Ok(g) = &got {
                ctx.record(&format!("ed.vartime_double_base.b/{}", 256 - k), g);
            }
        }
    }

    // ---- AVX2 constants and table
    #[cfg(not(any()))]
    {
        vector_part(ctx, &mut n_entries);
    }
    let _ = n_entries;
    *ctx.exhaustive.lock().unwrap() = Some(true);
    ctx.sample_tag("table", json!({"entry": "ED25519_BASEPOINT_TABLE[31][8]", "definition": "8 * 256^31 * B as (y+x, y-x, 2dxy)", "also": "selected through mul_base(8 * 256^31) and through the negated digit"}));
}

#[allow(unused_variables)]
fn vector_part(ctx: &Ctx, n_entries: &mut u64) {
    macro_rules! ck {
        ($key:expr, $cond:expr, $($m:tt)*) => {{
            ctx.eval(1);
            ctx.case($key);
            *n_entries += 1;
            if !($cond) {
                ctx.violation($key, &format!($($m)*), json!({"kind": "constant", "which": $key, "detail": format!($($m)*)}));
            }
        }};
    }
    let b = ed::basepoint();
    #[cfg(any())]
    let _ = b;
    if hook::BACKEND_CFG == "simd" || hook::BACKEND_CFG == "unstable_avx512" {
        avx2_part(ctx, n_entries);
    }
    if hook::BACKEND_CFG == "unstable_avx512" {
        ifma_part(ctx, n_entries);
    }
}

#[allow(unused_variables)]
fn avx2_part(ctx: &Ctx, n_entries: &mut u64) {
    macro_rules! ck {
        ($key:expr, $cond:expr, $($m:tt)*) => {{
            ctx.eval(1);
            ctx.case($key);
            *n_entries += 1;
            if !($cond) {
                ctx.violation($key, &format!($($m)*), json!({"kind": "constant", "which": $key, "detail": format!($($m)*)}));
            }
        }};
    }
    crate::with_avx2!({
        use curve25519_dalek::verif::avx2 as v;
        if !v::available() {
            ctx.note("AVX2 not available on this CPU: vector constants not checked");
            return;
        }
        let b = ed::basepoint();
        // 2p and 16p vectors: layout [a_2i, b_2i, a_2i+1, b_2i+1, c_2i, d_2i, c_2i+1, d_2i+1]
        let m26 = (1u32 << 26) - 1;
        let m25 = (1u32 << 25) - 1;
        for (name, lanes) in v::vector_constants() {
            let (mult, lo) = match name {
                "P_TIMES_2_LO" => (2u32, true),
                "P_TIMES_2_HI" => (2, false),
                "P_TIMES_16_LO" => (16, true),
                "P_TIMES_16_HI" => (16, false),
                _ => (0, false),
            };
            let even = if lo { (m26 - 18) * mult } else { m26 * mult };
            let odd = m25 * mult;
            let want = [even, even, odd, odd, even, even, odd, odd];
            ck!(&format!("const.avx2.{}", name), lanes == want, "{} = {:?} want {:?}", name, lanes, want);
        }
        let lanes_val = |r: &v::Raw| -> [Fp; 4] { [val10(&r[0]), val10(&r[1]), val10(&r[2]), val10(&r[3])] };
        let ei = lanes_val(&v::extended_identity());
        ck!("const.avx2.EXTENDEDPOINT_IDENTITY", ei == [Fp::ZERO, Fp::ONE, Fp::ONE, Fp::ZERO], "extended identity lanes");
        let ci = lanes_val(&v::cached_identity());
        ck!("const.avx2.CACHEDPOINT_IDENTITY", cached_matches(&ci, &ed::ID), "cached identity lanes");
        #[cfg(feature = "tables")]
        {
            let tab = v::basepoint_odd_table();
            ck!("table.avx2_odd.len", tab.len() == 64, "size");
            let b2 = b.dbl();
            let mut m = b;
            for (i, r) in tab.iter().enumerate() {
                let lv = lanes_val(r);
                // limb invariant of CachedPoint: b < 1.0
                let bound_ok = (0..4).all(|k| (0..10).all(|j| (r[k][j] as u64) < (1u64 << (if j % 2 == 0 { 27 } else { 26 }))));
                ck!(&format!("table.avx2_odd[{}]", i), cached_matches(&lv, &m) && bound_ok, "AVX2 table entry {} is not {} * B (bound ok: {})", i, 2 * i + 1, bound_ok);
                m = m.add(&b2);
            }
        }
    });
}

#[allow(unused_variables)]
fn ifma_part(ctx: &Ctx, n_entries: &mut u64) {
    macro_rules! ck {
        ($key:expr, $cond:expr, $($m:tt)*) => {{
            ctx.eval(1);
            ctx.case($key);
            *n_entries += 1;
            if !($cond) {
                ctx.violation($key, &format!($($m)*), json!({"kind": "constant", "which": $key, "detail": format!($($m)*)}));
            }
        }};
    }
    crate::with_ifma!({
        use curve25519_dalek::verif::ifma as v;
        if !v::available() {
            ctx.note("AVX-512 IFMA not available on this CPU: vector constants not checked");
            return;
        }
        let b = ed::basepoint();
        let lanes_val = |r: &v::Raw| -> [Fp; 4] { [val5(&r[0]), val5(&r[1]), val5(&r[2]), val5(&r[3])] };
        let ei = lanes_val(&v::extended_identity());
        ck!("const.ifma.EXTENDEDPOINT_IDENTITY", ei == [Fp::ZERO, Fp::ONE, Fp::ONE, Fp::ZERO], "extended identity lanes");
        let ci = lanes_val(&v::cached_identity());
        ck!("const.ifma.CACHEDPOINT_IDENTITY", cached_matches(&ci, &ed::ID), "cached identity lanes");
        #[cfg(feature = "tables")]
        {
            let tab = v::basepoint_odd_table();
            ck!("table.ifma_odd.len", tab.len() == 64, "size");
            let b2 = b.dbl();
            let mut m = b;
            for (i, r) in tab.iter().enumerate() {
                let lv = lanes_val(r);
                let bound_ok = (0..4).all(|k| (0..5).all(|j| r[k][j] < (1u64 << 52)));
                ck!(&format!("table.ifma_odd[{}]", i), cached_matches(&lv, &m) && bound_ok, "IFMA table entry {} is not {} * B (bound ok: {})", i, 2 * i + 1, bound_ok);
                m = m.add(&b2);
            }
        }
    });
}
