//! C06 — Ristretto is ristretto255 (RFC 9496) with canonical encoding.

use crate::alpha;
use crate::ev::{guarded, Ctx};
use crate::model::ed::{self, Pt};
use crate::model::eddsa::sha512;
use crate::model::fp::{self, Fp};
use crate::model::nat::{hex, U};
use crate::model::ris;
use crate::model::zl::l;
use crate::props::c01::{spec, Spec};
use crate::props::c03::{coords_of, point_of, Coords};
use crate::real::{self, IdDigest, ScriptRng};
use curve25519_dalek::constants::{BASEPOINT_ORDER, RISTRETTO_BASEPOINT_COMPRESSED, RISTRETTO_BASEPOINT_POINT};
use curve25519_dalek::ristretto::{CompressedRistretto, RistrettoPoint};
use curve25519_dalek::traits::{Identity, IsIdentity};
use curve25519_dalek::verif as hook;
use rayon::prelude::*;
use serde_json::json;
use sha2::Sha512;
use stateright::{Model, Property};
use std::sync::atomic::Ordering;

#[derive(Clone, Debug)]
pub struct RK {
    pub name: String,
    pub pt: Pt, // some representative
    pub real: RistrettoPoint,
}

fn inner_affine(sp: &Spec, p: &RistrettoPoint) -> Result<Pt, String> {
    let c = coords_of(&hook::ristretto_inner(p));
    let (x, y, z, t) = (sp.value(&c[0]), sp.value(&c[1]), sp.value(&c[2]), sp.value(&c[3]));
    if z.is_zero() {
        return Err("Z = 0".into());
    }
    if y.sq().sub(&x.sq()) != z.sq().add(&fp::d().mul(&t.sq())) || x.mul(&y) != z.mul(&t) {
        return Err("internal representative violates the curve equation".into());
    }
    let zi = z.inv();
    Ok(Pt { x: x.mul(&zi), y: y.mul(&zi) })
}

/// Oracle on one reached Ristretto point.
pub fn check_rpoint(sp: &Spec, p: &RistrettoPoint, m: &Pt, deep: bool) -> Result<(), String> {
    let aff = inner_affine(sp, p)?;
    if !ris::equal(&aff, m) {
        return Err("internal representative is not in the coset of the expected element".into());
    }
    let enc = guarded(|| p.compress()).map_err(|e| format!("panic in compress: {}", e))?;
    let want = ris::encode(m);
    if enc.0 != want {
        return Err(format!("compress = {} want {}", hex(&enc.0), hex(&want)));
    }
    let m_id = ris::equal(m, &ed::ID);
    if p.is_identity() != m_id || (*p == RistrettoPoint::identity()) != m_id {
        return Err("identity test disagrees".into());
    }
    // the same question through the `group` crate's trait and through ConstantTimeEq
    if bool::from(group::Group::is_identity(p)) != m_id {
        return Err(format!("group::Group::is_identity = {} want {}", !m_id, m_id));
    }
    if bool::from(subtle::ConstantTimeEq::ct_eq(p, &<RistrettoPoint as group::Group>::identity())) != m_id
        || bool::from(subtle::ConstantTimeEq::ct_eq(&<RistrettoPoint as group::Group>::identity(), p)) != m_id
    {
        return Err("ct_eq(group identity) disagrees".into());
    }
    if deep {
        let lp = guarded(|| p * &BASEPOINT_ORDER).map_err(|e| format!("panic in [l]P: {}", e))?;
        if !lp.is_identity() {
            return Err("[l]P is not the identity".into());
        }
        match guarded(|| enc.decompress()) {
            Ok(Some(q)) => {
                if q != *p || q.compress() != enc {
                    return Err("decompress(compress(P)) != P".into());
                }
            }
            Ok(None) => return Err("own encoding rejected".into()),
            Err(e) => return Err(format!("panic in decompress: {}", e)),
        }
    }
    Ok(())
}

pub fn rpool(n: usize) -> Vec<RK> {
    let lm = l();
    let mults: Vec<(String, U)> = vec![
        ("1".into(), U::ONE),
        ("0".into(), U::ZERO),
        ("2".into(), U::from_u64(2)),
        ("l-1".into(), lm.sub(&U::ONE)),
        ("3".into(), U::from_u64(3)),
        ("(l-1)/2".into(), lm.sub(&U::ONE).shr(1)),
        ("(l+1)/2".into(), lm.add(&U::ONE).shr(1)),
        ("5".into(), U::from_u64(5)),
        ("2^252".into(), U::pow2(252)),
    ];
    mults
        .into_iter()
        .take(n)
        .map(|(name, a)| {
            let pt = ed::mul_base(&a);
            let real = CompressedRistretto(ris::encode(&pt)).decompress().expect("model encoding must decode");
            RK { name: format!("{}*B", name), pt, real }
        })
        .collect()
}

#[derive(Clone, Copy, Debug, PartialEq, Eq, Hash)]
pub enum Op {
    Add(usize),
    Sub(usize),
    RSub(usize),
    AddAssign(usize),
    SubAssign(usize),
    Neg,
    Double,
    Coset(usize), // replace the representative by P + T_{2k}
    Recompress,
    Select(usize), // conditional_select / conditional_assign against a pool element
    GroupDouble,   // group::Group::double
    NegOwned,      // Neg for RistrettoPoint (by value)
    Sum(usize),    // Sum over [P, pool[i]] by reference and by value, and the owned operator variants
    Zeroize,       // wiped point = identity, consistent in all coordinates, usable afterwards
    Mul(usize),    // P * k, k * P, P *= k for a small scalar menu (applied to whatever representative was reached)
}

fn mul_menu() -> Vec<U> {
    let lm = l();
    vec![U::ZERO, U::ONE, U::from_u64(2), U::from_u64(8), lm.sub(&U::ONE), lm.add(&U::ONE).shr(1)]
}

#[derive(Clone, Debug, PartialEq, Eq, Hash)]
struct St {
    depth: u8,
    c: Coords,
    m: Pt,
    bad: Option<String>,
}

struct Machine {
    sp: Spec,
    inits: Vec<RK>,
    pool: Vec<RK>,
    /// elements every reached state is compared with: the pool, its negatives and non-trivial
    /// coset representatives (shifted by 4-torsion through the hook)
    eqpool: Vec<RK>,
    max_depth: u8,
    ctx: usize,
}
impl Machine {
    fn ctx(&self) -> &Ctx {
        unsafe { &*(self.ctx as *const Ctx) }
    }
}

impl Model for Machine {
    type State = St;
    type Action = Op;
    fn init_states(&self) -> Vec<St> {
        self.inits
            .iter()
            .map(|k| St {
                depth: 0,
                c: coords_of(&hook::ristretto_inner(&k.real)),
                m: k.pt,
                bad: check_rpoint(&self.sp, &k.real, &k.pt, true).err().map(|e| format!("initial {}: {}", k.name, e)),
            })
            .collect()
    }
    fn actions(&self, s: &St, out: &mut Vec<Op>) {
        if s.bad.is_some() || s.depth >= self.max_depth {
            return;
        }
        out.extend([Op::Neg, Op::Double, Op::Recompress, Op::Coset(1), Op::Coset(2), Op::Coset(3), Op::GroupDouble, Op::NegOwned]);
        #[cfg(feature = "zeroize")]
        out.push(Op::Zeroize);
        if s.depth <= 1 {
            for k in 0..mul_menu().len() {
                out.push(Op::Mul(k));
            }
        }
        for i in 0..self.pool.len() {
            out.extend([Op::Add(i), Op::Sub(i), Op::RSub(i)]);
            if s.depth == 0 {
                out.extend([Op::AddAssign(i), Op::SubAssign(i), Op::Select(i), Op::Sum(i)]);
            }
        }
    }
    fn next_state(&self, s: &St, a: Op) -> Option<St> {
        crate::apply_force();
        let ctx = self.ctx();
        ctx.transitions.fetch_add(1, Ordering::Relaxed);
        let p = hook::ristretto_from_inner(&point_of(&s.c));
        let pool = &self.pool;
        let r = guarded(|| -> (RistrettoPoint, Pt) {
            match a {
                Op::Add(i) => (&p + &pool[i].real, s.m.add(&pool[i].pt)),
                Op::Sub(i) => (&p - &pool[i].real, s.m.sub(&pool[i].pt)),
                Op::RSub(i) => (&pool[i].real - &p, pool[i].pt.sub(&s.m)),
                Op::AddAssign(i) => {
                    let mut x = p;
                    x += &pool[i].real;
                    (x, s.m.add(&pool[i].pt))
                }
                Op::SubAssign(i) => {
                    let mut x = p;
                    x -= &pool[i].real;
                    (x, s.m.sub(&pool[i].pt))
                }
                Op::Neg => (-&p, s.m.neg()),
                Op::NegOwned => (-p, s.m.neg()),
                #[cfg(feature = "zeroize")]
                Op::Zeroize => {
                    let mut z = p;
                    zeroize::Zeroize::zeroize(&mut z);
                    (z, ed::ID)
                }
                #[cfg(not(feature = "zeroize"))]
                Op::Zeroize => unreachable!("built without the zeroize feature"),
                Op::Double => (&p + &p, s.m.dbl()),
                Op::GroupDouble => (group::Group::double(&p), s.m.dbl()),
                Op::Sum(i) => {
                    let q = pool[i].real;
                    let by_ref: RistrettoPoint = [p, q].iter().sum();
                    let by_val: RistrettoPoint = vec![p, q].into_iter().sum();
                    let owned = [p + q, p + &q, &p + q];
                    let want = by_ref.compress();
                    let by_filter: RistrettoPoint = [p, q].iter().filter(|_| std::hint::black_box(true)).sum();
                    assert!(by_val.compress() == want && by_filter.compress() == want && owned.iter().all(|x| x.compress() == want), "Sum (exact and filtered iterators) / owned Add variants disagree");
                    let dif = [p - q, p - &q, &p - q];
                    let wd = (&p - &q).compress();
                    assert!(dif.iter().all(|x| x.compress() == wd), "owned Sub variants disagree");
                    (by_ref, s.m.add(&pool[i].pt))
                }
                Op::Mul(k) => {
                    let x = mul_menu()[k];
                    let rs = real::scalar(&x);
                    let a1 = &p * &rs;
                    let a2 = &rs * &p;
                    let mut a3 = p;
                    a3 *= &rs;
                    let a4 = p * rs;
                    let a5 = rs * p;
                    let want = a1.compress();
                    assert!([a2, a3, a4, a5].iter().all(|y| y.compress() == want), "RistrettoPoint * Scalar variants disagree");
                    (a1, s.m.mul(&x))
                }
                Op::Coset(k) => {
                    let shifted = &hook::ristretto_inner(&p) + &curve25519_dalek::constants::EIGHT_TORSION[2 * k];
                    (hook::ristretto_from_inner(&shifted), s.m)
                }
                Op::Recompress => (p.compress().decompress().expect("own encoding"), s.m),
                Op::Select(i) => {
                    use subtle::{Choice, ConditionallySelectable};
                    // choice 0 keeps the first operand, choice 1 takes the second: the result must be
                    // representation-identical to the chosen operand
                    let keep = RistrettoPoint::conditional_select(&p, &pool[i].real, Choice::from(0));
                    let take = RistrettoPoint::conditional_select(&pool[i].real, &p, Choice::from(1));
                    let mut asg = pool[i].real;
                    asg.conditional_assign(&p, Choice::from(1));
                    let want = coords_of(&hook::ristretto_inner(&p));
                    for q in [&keep, &take, &asg] {
                        assert!(coords_of(&hook::ristretto_inner(q)) == want, "RistrettoPoint conditional_select/assign does not return the chosen operand");
                    }
                    (take, s.m)
                }
            }
        });
        let fail = |e: String| St { depth: s.depth + 1, c: s.c.clone(), m: s.m, bad: Some(format!("{:?}: {}", a, e)) };
        Some(match r {
            Err(e) => fail(format!("panic: {}", e)),
            Ok((q, m)) => {
                for k in &self.eqpool {
                    let want = ris::equal(&m, &k.pt);
                    if (q == k.real) != want || (k.real == q) != want {
                        return Some(fail(format!("== {} gives {} / {} but model says {}", k.name, q == k.real, k.real == q, want)));
                    }
                }
                if let Op::Coset(_) = a {
                    ctx.count("states_reached_as_nontrivial_coset_representative", 1);
                    if q != p {
                        return Some(fail("coset representative compares unequal".into()));
                    }
                }
                match check_rpoint(&self.sp, &q, &m, true) {
                    Ok(()) => St { depth: s.depth + 1, c: coords_of(&hook::ristretto_inner(&q)), m, bad: None },
                    Err(e) => fail(e),
                }
            }
        })
    }
    fn properties(&self) -> Vec<Property<Self>> {
        vec![Property::always("ristretto255", |_, s: &St| s.bad.is_none())]
    }
}

/// A-ENC-R
pub fn encodings(quick: bool) -> Vec<[u8; 32]> {
    let mut v: Vec<[u8; 32]> = alpha::fe_bytes();
    let p = fp::p();
    for s in 0..256u64 {
        v.push(U::from_u64(s).to_le32());
    }
    for k in 1..=256u64 {
        v.push(p.sub(&U::from_u64(k)).to_le32());
    }
    for k in 0..19u64 {
        v.push(p.add(&U::from_u64(k)).to_le32());
    }
    for k in rpool(9) {
        let e = ris::encode(&k.pt);
        v.push(e);
        // negative s = p - s
        let s = Fp::from_bytes(&e);
        v.push(s.neg().to_bytes());
        // non-canonical s + p (when it fits) and with bit 255 set
        if s.0.add(&p).bits() <= 256 {
            v.push(s.0.add(&p).to_le32());
        }
        let mut hb = e;
        hb[31] |= 0x80;
        v.push(hb);
    }
    // small multiples: valid encodings
    for i in 0..(if quick { 16 } else { 64 }) {
        v.push(ris::encode(&ed::mul_base(&U::from_u64(i))));
    }
    // encodings of points with Edwards torsion (4-torsion shifts encode identically; odd torsion
    // shifts are not in the group: their "encodings" as computed by the formula are not valid)
    let mut seen = std::collections::HashSet::new();
    v.retain(|x| seen.insert(*x));
    v
}

pub fn run(ctx: &Ctx) {
    let sp = spec();
    let quick = ctx.quick();
    // ---- decoder
    let encs = encodings(quick);
    ctx.bound("decoder_encodings", json!(encs.len()));
    let stats = std::sync::Mutex::new(std::collections::BTreeMap::<&'static str, u64>::new());
    encs.par_iter().for_each(|e| {
        ctx.eval(1);
        let m = ris::decode(e);
        // classify the rejection by the first RFC rule that fires (for the non-vacuity counters)
        let class = {
            let s_int = U::from_le(e);
            if s_int >= fp::p() {
                "rejected_noncanonical_s"
            } else if s_int.bit(0) {
                "rejected_negative_s"
            } else if m.is_none() {
                "rejected_nonsquare_or_negative_t_or_y_zero"
            } else {
                "accepted"
            }
        };
        *stats.lock().unwrap().entry(class).or_insert(0) += 1;
        let case = json!({"kind": "ris_decompress", "bytes": hex(e)});
        match guarded(|| CompressedRistretto(*e).decompress()) {
            Err(pn) => ctx.violation("ris.decompress", &format!("panic: {}", pn), case),
            Ok(g) => {
                ctx.record(&format!("ris.decompress/{}", hex(e)), &[g.is_some() as u8]);
                match (g, m) {
                    (None, None) => {}
                    (Some(q), Some(mp)) => {
                        if q.compress().0 != *e {
                            ctx.violation("ris.decompress", "re-encoding differs from the input bytes", case);
                        } else if let Err(err) = check_rpoint(&sp, &q, &mp, !quick) {
                            ctx.violation("ris.decompress", &err, case);
                        }
                    }
                    (g, m) => ctx.violation("ris.decompress", &format!("accepts={} but RFC 9496 decode says {}", g.is_some(), m.is_some()), case),
                }
            }
        }
    });
    for (k, v) in stats.lock().unwrap().iter() {
        ctx.count(&format!("decode_{}", k), *v);
    }
    // ---- one-way map
    let fb: Vec<[u8; 32]> = {
        let all = alpha::fe_bytes();
        let n = if quick { 30 } else { all.len().min(140) };
        // exceptional preimages solved by the model: r0 with r = i*r0^2 in {-1, -d, -1/d, 1}
        let mut v: Vec<[u8; 32]> = all.into_iter().take(n).collect();
        let i = fp::sqrt_m1();
        for target in [Fp::ONE.neg(), fp::d().neg(), fp::d().inv().neg(), Fp::ONE, Fp::ZERO] {
            // r0^2 = target / i
            if let Some(r0) = fp::sqrt(&target.mul(&i.inv())) {
                v.push(r0.to_bytes());
                v.push(r0.neg().to_bytes());
            }
        }
        v
    };
    ctx.bound("one_way_map_halves", json!(fb.len()));
    let map_cases = std::sync::Mutex::new([0u64; 2]);
    fb.par_iter().for_each(|a| {
        // single-field-element map through the hook (covers each half separately)
        ctx.eval(1);
        let r0 = hook::Fe::from_bytes(a);
        let want1 = ris::map(a);
        match guarded(|| hook::elligator_ristretto_flavor(&r0)) {
            Ok(q) => {
                if let Err(e) = check_rpoint(&sp, &q, &want1, false) {
                    ctx.violation("ris.elligator", &e, json!({"kind": "elligator", "r0": hex(a)}));
                }
            }
            Err(e) => ctx.violation("ris.elligator", &format!("panic: {}", e), json!({"kind": "elligator", "r0": hex(a)})),
        }
        for b in &fb {
            ctx.eval(1);
            let mut w = [0u8; 64];
            w[..32].copy_from_slice(a);
            w[32..].copy_from_slice(b);
            let want = ris::one_way_map(&w);
            let case = json!({"kind": "from_uniform_bytes", "bytes": hex(&w)});
            match guarded(|| RistrettoPoint::from_uniform_bytes(&w)) {
                Ok(q) => {
                    let enc = q.compress().0;
                    ctx.record(&format!("ris.from_uniform_bytes/{}", hex(&w)), &enc);
                    if enc != ris::encode(&want) {
                        ctx.violation("ris.from_uniform_bytes", &format!("got {} want {}", hex(&enc), hex(&ris::encode(&want))), case);
                    }
                    map_cases.lock().unwrap()[ris::equal(&want, &ed::ID) as usize] += 1;
                }
                Err(e) => ctx.violation("ris.from_uniform_bytes", &format!("panic: {}", e), case),
            }
        }
    });
    ctx.count("one_way_map_outputs_identity", map_cases.lock().unwrap()[1]);
    // the hash / RNG seams
    for (i, a) in fb.iter().enumerate().take(if quick { 8 } else { 40 }) {
        ctx.eval(3);
        let b = &fb[(i * 7 + 3) % fb.len()];
        let mut w = [0u8; 64];
        w[..32].copy_from_slice(a);
        w[32..].copy_from_slice(b);
        let want = ris::encode(&ris::one_way_map(&w));
        let case = json!({"kind": "ris_seams", "bytes": hex(&w)});
        let r = guarded(|| {
            let h1 = RistrettoPoint::hash_from_bytes::<IdDigest>(&w).compress().0;
            let mut d = IdDigest::default();
            digest::Update::update(&mut d, &w);
            let h2 = RistrettoPoint::from_hash(d).compress().0;
            let mut rng = ScriptRng::new(&w);
            let h3 = RistrettoPoint::random(&mut rng).compress().0;
            (h1, h2, h3)
        });
        match r {
            Ok((h1, h2, h3)) => {
                if h1 != want || h2 != want || h3 != want {
                    ctx.violation("ris.hash_seams", "hash_from_bytes/from_hash/random differ from the one-way map of the 64 bytes", case);
                }
            }
            Err(e) => ctx.violation("ris.hash_seams", &format!("panic: {}", e), case),
        }
    }
    for n in alpha::msg_lens() {
        ctx.eval(1);
        let msg = alpha::msg_of_len(n, 3);
        let want = ris::encode(&ris::one_way_map(&sha512(&[&msg])));
        let got = RistrettoPoint::hash_from_bytes::<Sha512>(&msg).compress().0;
        ctx.record(&format!("ris.hash_from_bytes/{}", n), &got);
        if got != want {
            ctx.violation("ris.hash_from_bytes", "differs from MAP(SHA-512(msg))", json!({"kind": "ris_hash", "len": n}));
        }
    }
    // ---- constants
    ctx.eval(2);
    if RISTRETTO_BASEPOINT_COMPRESSED.0 != ris::encode(&ed::basepoint()) || RISTRETTO_BASEPOINT_POINT.compress() != RISTRETTO_BASEPOINT_COMPRESSED {
        ctx.violation("ris.basepoint", "basepoint constants", json!({"kind": "ris_const"}));
    }
    // ---- sums, double-base, basepoint table, defaults
    {
        use curve25519_dalek::scalar::Scalar;
        let pool = rpool(5);
        for a in 0..pool.len() {
            for b in 0..pool.len() {
                for c in [None, Some((a + b) % pool.len())] {
                    ctx.eval(1);
                    let mut idx = vec![a, b];
                    if let Some(c) = c {
                        idx.push(c);
                    }
                    let got: RistrettoPoint = idx.iter().map(|i| pool[*i].real).sum();
                    let want = idx.iter().fold(ed::ID, |acc, i| acc.add(&pool[*i].pt));
                    if got.compress().0 != ris::encode(&want) {
                        ctx.violation("ris.sum", "Sum differs", json!({"kind": "ris_sum", "indices": idx}));
                    }
                }
                // a*A + b*B
                ctx.eval(1);
                let (sa, sb) = (Scalar::from(a as u64 + 2), Scalar::from(b as u64 + 3));
                let got = guarded(|| RistrettoPoint::vartime_double_scalar_mul_basepoint(&sa, &pool[a].real, &sb).compress().0);
                let want = pool[a].pt.mul(&U::from_u64(a as u64 + 2)).add(&ed::mul_base(&U::from_u64(b as u64 + 3)));
                if got != Ok(ris::encode(&want)) {
                    ctx.violation("ris.vartime_double_scalar_mul_basepoint", "differs", json!({"kind": "ris_double_base", "a": a, "b": b}));
                }
            }
            // MulAssign, table create / basepoint
            ctx.eval(2);
            let s7 = Scalar::from(7u8);
            let mut q = pool[a].real;
            q *= &s7;
            if q.compress().0 != ris::encode(&pool[a].pt.mul(&U::from_u64(7))) {
                ctx.violation("ris.mul_assign", "differs", json!({"kind": "ris_mul_assign", "a": a}));
            }
            #[cfg(feature = "tables")]
            {
                use curve25519_dalek::ristretto::RistrettoBasepointTable;
                let t = RistrettoBasepointTable::create(&pool[a].real);
                if t.basepoint().compress().0 != ris::encode(&pool[a].pt) || (&t * &s7).compress().0 != ris::encode(&pool[a].pt.mul(&U::from_u64(7))) || (&s7 * &t).compress() != (&t * &s7).compress() {
                    ctx.violation("ris.basepoint_table", "create/basepoint/mul differ", json!({"kind": "ris_table", "a": a}));
                }
            }
        }
        ctx.eval(1);
        if RistrettoPoint::default() != RistrettoPoint::identity() || CompressedRistretto::default().0 != [0u8; 32] || CompressedRistretto::identity().0 != [0u8; 32] {
            ctx.violation("ris.default", "Default / identity", json!({"kind": "ris_default"}));
        }
    }
    // ---- batched double-and-compress on every <= 3 tuple (with repetition) of a pool that
    // contains the identity, 4-torsion representatives of it, and ordinary elements
    {
        let mut pool: Vec<RK> = rpool(if quick { 4 } else { 6 });
        for k in 1..4 {
            let shifted = hook::ristretto_from_inner(&curve25519_dalek::constants::EIGHT_TORSION[2 * k]);
            pool.push(RK { name: format!("T{}", 2 * k), pt: ed::torsion()[2 * k], real: shifted });
            let q = &hook::ristretto_inner(&pool[0].real) + &curve25519_dalek::constants::EIGHT_TORSION[2 * k];
            pool.push(RK { name: format!("B+T{}", 2 * k), pt: pool[0].pt.add(&ed::torsion()[2 * k]), real: hook::ristretto_from_inner(&q) });
        }
        let n = pool.len();
        let mut tuples: Vec<Vec<usize>> = vec![vec![]];
        for a in 0..n {
            tuples.push(vec![a]);
            for b in 0..n {
                tuples.push(vec![a, b]);
                for c in 0..n {
                    if !quick || (a + 2 * b + c) % 4 == 0 {
                        tuples.push(vec![a, b, c]);
                    }
                }
            }
        }
        ctx.count("batch_double_tuples", tuples.len() as u64);
        tuples.par_iter().for_each(|t| {
            ctx.eval(1);
            let pts: Vec<RistrettoPoint> = t.iter().map(|i| pool[*i].real).collect();
            let case = json!({"kind": "double_and_compress_batch", "tuple": t.iter().map(|i| pool[*i].name.clone()).collect::<Vec<_>>()});
            match guarded(|| RistrettoPoint::double_and_compress_batch(pts.iter())) {
                Ok(out) => {
                    if out.len() != t.len() {
                        ctx.violation("ris.double_and_compress_batch", "wrong length", case.clone());
                    }
                    for (k, o) in out.iter().enumerate() {
                        let want = ris::encode(&pool[t[k]].pt.dbl());
                        if o.0 != want || o.0 != (&pts[k] + &pts[k]).compress().0 {
                            ctx.violation("ris.double_and_compress_batch", &format!("element {}: got {} want {}", k, hex(&o.0), hex(&want)), case.clone());
                        }
                    }
                }
                Err(e) => ctx.violation("ris.double_and_compress_batch", &format!("panic: {}", e), case),
            }
        });
    }
    // ---- machine
    let pool = rpool(if quick { 4 } else { 6 });
    let mut inits = rpool(9);
    inits.push(RK { name: "identity()".into(), pt: ed::ID, real: RistrettoPoint::identity() });
    inits.push(RK { name: "RISTRETTO_BASEPOINT_POINT".into(), pt: ed::basepoint(), real: RISTRETTO_BASEPOINT_POINT });
    for (i, a) in fb.iter().enumerate().take(if quick { 3 } else { 10 }) {
        let mut w = [0u8; 64];
        w[..32].copy_from_slice(a);
        w[32..].copy_from_slice(&fb[(i + 5) % fb.len()]);
        inits.push(RK { name: format!("from_uniform_bytes#{}", i), pt: ris::one_way_map(&w), real: RistrettoPoint::from_uniform_bytes(&w) });
    }
    let depth = if ctx.deep { 4 } else { 3 };
    ctx.bound("machine_depth", json!(depth));
    ctx.bound("machine_pool", json!(pool.len()));
    ctx.bound("machine_inits", json!(inits.len()));
    // distinct elements <-> distinct encodings over the initial pool
    for a in &inits {
        for b in &inits {
            ctx.eval(1);
            let same = ris::equal(&a.pt, &b.pt);
            if (a.real.compress() == b.real.compress()) != same || (a.real == b.real) != same {
                ctx.violation("ris.eq", "equality / encoding equality disagree with coset equality", json!({"kind": "ris_eq", "a": a.name, "b": b.name}));
            }
        }
    }
    let mut eqpool: Vec<RK> = Vec::new();
    for k in &pool {
        eqpool.push(k.clone());
        eqpool.push(RK { name: format!("-({})", k.name), pt: k.pt.neg(), real: -&k.real });
        for t in [1usize, 2, 3] {
            let shifted = &hook::ristretto_inner(&k.real) + &curve25519_dalek::constants::EIGHT_TORSION[2 * t];
            eqpool.push(RK { name: format!("{}+T{}", k.name, 2 * t), pt: k.pt.add(&ed::torsion()[2 * t]), real: hook::ristretto_from_inner(&shifted) });
        }
    }
    ctx.bound("machine_equality_pool", json!(eqpool.len()));
    let m = Machine { sp: spec(), inits, pool, eqpool, max_depth: depth, ctx: ctx as *const Ctx as usize };
    let o = crate::bfs::explore(&m, depth as usize, |s| s.bad.clone(), 8);
    crate::bfs::finish(ctx, "ris.machine", &o, depth as usize);
    ctx.sample_tag("machine", json!({"depth": depth, "note": "BFS over raw representatives incl. explicit 4-torsion coset shifts; oracle = RFC 9496 encode of the model coset, coset equality, [l]P = 0, decode(encode)"}));
}
