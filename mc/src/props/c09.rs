//! C09 — Ed25519 verification accepts exactly the documented set of signatures.

use crate::alpha;
use crate::ev::Ctx;
use crate::model::ed::{self, Pt};
use crate::model::eddsa;
use crate::model::fp;
use crate::model::nat::{hex, U};
use crate::model::zl::{l, Zl};
use crate::props::sigs::{model_accepts, real_verifiers, seeds};
use rayon::prelude::*;
use serde_json::json;

#[derive(Clone)]
struct Enc {
    name: String,
    bytes: [u8; 32],
    pt: Option<Pt>,
    tor: Option<u8>, // torsion component if decodable
}

fn classify(name: &str, b: [u8; 32]) -> Enc {
    let pt = ed::decompress(&b);
    let tor = pt.as_ref().map(crate::props::c03::torsion_index);
    Enc { name: name.to_string(), bytes: b, pt, tor }
}

/// Point encodings for A and R: torsion points in every canonical and non-canonical form,
/// honest points, honest + torsion, undecodable strings.
fn point_encodings(n_honest: usize, full: bool) -> Vec<Enc> {
    let mut v = Vec::new();
    let p = fp::p();
    let t = ed::torsion();
    for j in 0..8 {
        let e = t[j].compress();
        v.push(classify(&format!("T{}", j), e));
        // flipped sign bit where x = 0 ("negative zero") and non-canonical y + p
        if t[j].x.is_zero() {
            let mut f = e;
            f[31] ^= 0x80;
            v.push(classify(&format!("T{}-negzero", j), f));
        }
        let y = t[j].y.0;
        if y.add(&p).bits() <= 255 {
            let mut b = y.add(&p).to_le32();
            b[31] |= e[31] & 0x80;
            v.push(classify(&format!("T{}-noncanonical", j), b));
            let mut b2 = b;
            b2[31] ^= 0x80;
            if t[j].x.is_zero() {
                v.push(classify(&format!("T{}-noncanonical-negzero", j), b2));
            }
        }
    }
    let sd = seeds(n_honest);
    for (i, s) in sd.iter().enumerate() {
        let k = eddsa::keygen(s);
        v.push(classify(&format!("honest{}", i), k.public));
        if full || i == 0 {
            let a = ed::decompress(&k.public).unwrap();
            for j in [1usize, 2, 4] {
                v.push(classify(&format!("honest{}+T{}", i, j), a.add(&t[j]).compress()));
            }
        }
    }
    // undecodable / special
    for (n, y) in [("y=2", 2u64), ("y=7", 7)] {
        let mut b = [0u8; 32];
        b[0] = y as u8;
        v.push(classify(n, b));
    }
    v.push(classify("all-ff", [0xff; 32]));
    v.push(classify("y=p-1+p?", {
        let mut b = p.sub(&U::ONE).to_le32();
        b[31] |= 0x80;
        b
    }));
    v
}

fn s_values(honest: &[u8; 32]) -> Vec<(String, [u8; 32])> {
    let lm = l();
    let hs = U::from_le(honest);
    let mut v: Vec<(String, U)> = vec![
        ("honest".into(), hs),
        ("0".into(), U::ZERO),
        ("1".into(), U::ONE),
        ("l-1".into(), lm.sub(&U::ONE)),
        ("l".into(), lm),
        ("l+1".into(), lm.add(&U::ONE)),
        ("honest+l".into(), hs.add(&lm)),
        ("2^252".into(), U::pow2(252)),
        ("2^253-1".into(), U::pow2(253).sub(&U::ONE)),
        ("2^253".into(), U::pow2(253)),
        ("2^254".into(), U::pow2(254)),
        ("2^255-1".into(), U::pow2(255).sub(&U::ONE)),
        ("honest|bit255".into(), hs.add(&U::pow2(255))),
        ("honest+2l".into(), hs.add(&lm.shl(1))),
        ("honest+8l".into(), hs.add(&lm.shl(3))),
    ];
    v.retain(|(_, x)| x.bits() <= 256);
    v.into_iter().map(|(n, x)| (n, x.to_le32())).collect()
}

/// First counter-message (if any among `tries`) for which `pred(k)` holds, where
/// k = H(dom || R || A || M) mod l.
fn find_msg(r: &[u8; 32], a: &[u8; 32], ctx: Option<&[u8]>, tries: u32, pred: impl Fn(&U) -> bool) -> Option<Vec<u8>> {
    for c in 0..tries {
        let msg = format!("manufactured-{}", c).into_bytes();
        let (dom, m): (Vec<u8>, Vec<u8>) = match ctx {
            None => (vec![], msg.clone()),
            Some(cx) => (eddsa::dom2(1, cx), eddsa::sha512(&[&msg]).to_vec()),
        };
        let k = Zl::from_le(&eddsa::sha512(&[&dom, r, a, &m]));
        if pred(&k.0) {
            return Some(msg);
        }
    }
    None
}

fn drive(ctx: &Ctx, a: &[u8; 32], msg: &[u8], sig: &[u8; 64], c: Option<&[u8]>, tag: &str, stats: &std::sync::Mutex<std::collections::BTreeMap<String, u64>>) {
    drive_sk(ctx, None, a, msg, sig, c, tag, stats)
}

/// `seed`: for honest keys, the verification methods of the *signing* key are driven with the same triple too
/// (they are separate entry points with their own bodies).
fn drive_sk(ctx: &Ctx, seed: Option<&[u8; 32]>, a: &[u8; 32], msg: &[u8], sig: &[u8; 64], c: Option<&[u8]>, tag: &str, stats: &std::sync::Mutex<std::collections::BTreeMap<String, u64>>) {
    ctx.eval(1);
    if let Some(seed) = seed {
        let sk = ed25519_dalek::SigningKey::from_bytes(seed);
        if c.map(|x| x.len() <= 255).unwrap_or(true) {
            for (name, strict, r) in crate::props::sigs::real_verifiers_sk(&sk, msg, sig, c) {
                let want = model_accepts(a, msg, sig, c, strict);
                match r {
                    Err(e) => ctx.violation(&format!("verify.{}", name), &format!("panic: {}", e), json!({"kind": "verify_sk", "seed": hex(seed), "msg": hex(msg), "sig": hex(sig), "ctx": c.map(hex), "class": tag})),
                    Ok(g) => {
                        if g != want {
                            ctx.violation(&format!("verify.{}", name), &format!("accept={} but the documented rule says {} ({})", g, want, tag), json!({"kind": "verify_sk", "seed": hex(seed), "msg": hex(msg), "sig": hex(sig), "ctx": c.map(hex), "class": tag}));
                        }
                    }
                }
            }
        }
    }
    let case = json!({"kind": "verify", "key": hex(a), "msg": hex(msg), "sig": hex(sig), "ctx": c.map(hex), "class": tag});
    ctx.case(&case.to_string());
    let key = format!("{}/{}/{}/{}", hex(a), hex(msg), hex(sig), c.map(hex).unwrap_or("-".into()));
    for (name, strict, r) in real_verifiers(a, msg, sig, c) {
        let want = model_accepts(a, msg, sig, c, strict);
        match r {
            Err(e) => ctx.violation(&format!("verify.{}", name), &format!("panic: {}", e), case.clone()),
            Ok(g) => {
                if c.map(|x| x.len() <= 255).unwrap_or(true) {
                    ctx.record(&format!("verify.{}/{}", name, key), &[g as u8]);
                }
                if g != want {
                    ctx.violation(&format!("verify.{}", name), &format!("accept={} but the documented rule says {} ({})", g, want, tag), case.clone());
                }
                let mut s = stats.lock().unwrap();
                *s.entry(format!("{}_{}", if g { "accepted" } else { "rejected" }, if strict { "strict" } else { "plain" })).or_insert(0) += 1;
                if g {
                    *s.entry(format!("accepted_class_{}", tag)).or_insert(0) += 1;
                }
            }
        }
    }
}

pub fn run(ctx: &Ctx) {
    let quick = ctx.quick();
    let encs = point_encodings(if quick { 2 } else { 4 }, !quick);
    ctx.bound("point_encodings", json!(encs.len()));
    ctx.bound("legacy_compatibility", json!(cfg!(feature = "legacy")));
    let stats = std::sync::Mutex::new(std::collections::BTreeMap::<String, u64>::new());
    let sd = seeds(if quick { 2 } else { 4 });
    let contexts: Vec<Option<Vec<u8>>> = vec![None, Some(vec![]), Some(b"ctx".to_vec())];
    // ---- (1) honest signatures with every S variant and every R class, under honest keys
    sd.par_iter().enumerate().for_each(|(i, seed)| {
        let key = eddsa::keygen(seed);
        for c in &contexts {
            for mlen in [0usize, 33] {
                let msg = alpha::msg_of_len(mlen, i as u8);
                let sig = eddsa::sign(seed, &msg, c.as_deref());
                let mut sb = [0u8; 32];
                sb.copy_from_slice(&sig[32..]);
                for (sn, s) in s_values(&sb) {
                    let mut t = sig;
                    t[32..].copy_from_slice(&s);
                    drive_sk(ctx, Some(seed), &key.public, &msg, &t, c.as_deref(), &format!("honest_R.S={}", sn), &stats);
                }
                // R replaced by each encoding class (S honest): only R = honest R can verify
                for e in &encs {
                    let mut t = sig;
                    t[..32].copy_from_slice(&e.bytes);
                    drive_sk(ctx, Some(seed), &key.public, &msg, &t, c.as_deref(), "R_replaced", &stats);
                }
                // non-canonical re-encoding of the honest R is impossible for generic points
                // (y < 2^255 - 19 + 19); flip the sign bit instead: different point
                let mut t = sig;
                t[31] ^= 0x80;
                drive_sk(ctx, Some(seed), &key.public, &msg, &t, c.as_deref(), "R_sign_flipped", &stats);
                // what only the key holder can make: R = the identity (small order) with S = k*a, which satisfies
                // the equation under the honest key: accepted by the plain verifiers, refused by the strict ones;
                // and the same with the non-canonical identity encodings (refused everywhere: R bytes differ)
                for (rn, rb) in [("identity", ed::ID.compress()), ("identity_signbit", { let mut b = ed::ID.compress(); b[31] |= 0x80; b }), ("identity_y=p+1", crate::model::fp::p().add(&U::ONE).to_le32())] {
                    let (dom, m): (Vec<u8>, Vec<u8>) = match c {
                        None => (vec![], msg.clone()),
                        Some(cx) => (eddsa::dom2(1, cx), eddsa::sha512(&[&msg]).to_vec()),
                    };
                    let k = Zl::from_le(&eddsa::sha512(&[&dom, &rb, &key.public, &m]));
                    let sv = k.mul(&Zl::new(&key.a));
                    let mut t = [0u8; 64];
                    t[..32].copy_from_slice(&rb);
                    t[32..].copy_from_slice(&sv.0.to_le32());
                    drive_sk(ctx, Some(seed), &key.public, &msg, &t, c.as_deref(), &format!("keyholder_R={}", rn), &stats);
                }
            }
        }
    });
    // ---- (2) adversarial keys x adversarial R x S classes, messages manufactured so that the
    //          cofactorless equation holds when it can
    let s_small: Vec<(String, [u8; 32])> = {
        let lm = l();
        let mut v = vec![
            ("0".to_string(), U::ZERO.to_le32()),
            ("l".to_string(), lm.to_le32()),
            ("1".to_string(), U::ONE.to_le32()),
            ("8l mod 2^256".to_string(), lm.shl(3).low_bits(256).to_le32()),
        ];
        if !quick {
            v.push(("2l".to_string(), lm.shl(1).to_le32()));
            v.push(("l-1".to_string(), lm.sub(&U::ONE).to_le32()));
            v.push(("2^255".to_string(), U::pow2(255).to_le32()));
        }
        v
    };
    let pairs: Vec<(usize, usize)> = {
        let mut v = Vec::new();
        for i in 0..encs.len() {
            for j in 0..encs.len() {
                v.push((i, j));
            }
        }
        v
    };
    ctx.bound("key_R_pairs", json!(pairs.len()));
    ctx.bound("S_classes_adversarial", json!(s_small.len()));
    pairs.par_iter().for_each(|(ai, ri)| {
        let (a, r) = (&encs[*ai], &encs[*ri]);
        for c in &contexts[..if quick { 2 } else { 3 }] {
            // fixed message
            let fixed = b"fixed message".to_vec();
            // manufactured: S = 0 needs -[k]A = R.  For small-order A = T_j and canonical
            // small-order R = T_i: (-k j) mod 8 == i.
            let manufactured = match (&a.pt, &r.pt, a.tor, r.tor) {
                (Some(ap), Some(rp), Some(ja), Some(_)) if ap.is_small_order() && rp.is_small_order() => {
                    let target = rp.compress();
                    find_msg(&r.bytes, &a.bytes, c.as_deref(), 64, |k| {
                        let kk = (k.low_u64() % 8) as usize;
                        let neg = ed::torsion()[(8 - (kk * ja as usize) % 8) % 8];
                        neg.compress() == target
                    })
                }
                _ => None,
            };
            for msg in std::iter::once(fixed).chain(manufactured.into_iter()) {
                for (sn, s) in &s_small {
                    let mut sig = [0u8; 64];
                    sig[..32].copy_from_slice(&r.bytes);
                    sig[32..].copy_from_slice(s);
                    drive(ctx, &a.bytes, &msg, &sig, c.as_deref(), &format!("A={},R={},S={}", class_of(a), class_of(r), sn), &stats);
                }
            }
        }
    });
    // ---- (3) mixed-order keys: honest secret a, key A' = aB + T_j; signature by the key
    //          holder over A' bytes; message manufactured so that k*j = 0 mod 8
    sd.par_iter().enumerate().for_each(|(i, seed)| {
        let key = eddsa::keygen(seed);
        let a_pt = ed::decompress(&key.public).unwrap();
        for j in 1..8usize {
            let a2 = a_pt.add(&ed::torsion()[j]).compress();
            for c in &contexts[..2] {
                // need R first: R depends on the message through r = H(prefix, m); search
                // messages until k*j = 0 mod 8 for the resulting (R, A', M)
                for cnt in 0..48u32 {
                    let msg = format!("mixed-{}-{}-{}", i, j, cnt).into_bytes();
                    let (dom, m): (Vec<u8>, Vec<u8>) = match c {
                        None => (vec![], msg.clone()),
                        Some(cx) => (eddsa::dom2(1, cx), eddsa::sha512(&[&msg]).to_vec()),
                    };
                    let sig = eddsa::sign_expanded(&key.a, &key.prefix, &a2, &dom, &m);
                    let mut rb = [0u8; 32];
                    rb.copy_from_slice(&sig[..32]);
                    let k = Zl::from_le(&eddsa::sha512(&[&dom, &rb, &a2, &m]));
                    let hit = (k.0.low_u64() % 8) * (j as u64) % 8 == 0;
                    if hit || cnt == 0 {
                        drive(ctx, &a2, &msg, &sig, c.as_deref(), if hit { "mixed_order_key_equation_holds" } else { "mixed_order_key_equation_fails" }, &stats);
                    }
                    if hit {
                        break;
                    }
                }
            }
        }
    });
    // ---- (3b) the key obtained from `Default`: it must behave exactly like the key decoded from its own bytes
    //           (what is hashed is the stored encoding, what is multiplied is the stored point)
    {
        use ed25519_dalek::{Signature, VerifyingKey};
        use signature::Verifier;
        let dk = VerifyingKey::default();
        let db = dk.to_bytes();
        ctx.eval(1);
        let again = VerifyingKey::from_bytes(&db);
        let consistent = again.as_ref().map(|k| *k == dk && curve25519_dalek::edwards::EdwardsPoint::from(*k).compress().0 == curve25519_dalek::edwards::EdwardsPoint::from(dk).compress().0).unwrap_or(false);
        if !consistent || ed::decompress(&db).map(|p| p.compress()) != Some(curve25519_dalek::edwards::EdwardsPoint::from(dk).compress().0) {
            ctx.violation("verify.VerifyingKey::default", "the default key's point is not the decompression of its bytes", json!({"kind": "default_key", "bytes": hex(&db)}));
        }
        // signatures (R = [S]B, S) for a few S: accepted iff the documented rule accepts them under the key *bytes*
        for sv in [0u64, 1, 2, 7, 1000] {
            for mi in 0..4u8 {
                let msg = vec![mi; mi as usize + 1];
                let s_int = U::from_u64(sv);
                let r = ed::mul_base(&s_int).compress();
                let mut sig = [0u8; 64];
                sig[..32].copy_from_slice(&r);
                sig[32..].copy_from_slice(&s_int.to_le32());
                drive(ctx, &db, &msg, &sig, None, "default_key_R=[S]B", &stats);
                let got = dk.verify(&msg, &Signature::from_bytes(&sig)).is_ok();
                let want = model_accepts(&db, &msg, &sig, None, false);
                ctx.eval(1);
                if got != want {
                    ctx.violation("verify.VerifyingKey::default", &format!("Default key: accept={} but the documented rule for its bytes says {}", got, want), json!({"kind": "default_key", "bytes": hex(&db), "msg": hex(&msg), "sig": hex(&sig)}));
                }
            }
        }
    }
    // ---- (3c) key decoding, completely over the non-canonical band: every encoding whose y integer is in [p, 2^255)
    //           (19 values, both sign bits) and its canonical twin y - p.  "The key bytes decode to a curve point"
    //           is the first leg of the documented rule; most of these points have no known discrete logarithm, so
    //           no accepted signature can exhibit a wrong refusal: the decoder itself is asked.
    {
        use ed25519_dalek::VerifyingKey;
        let p = fp::p();
        let mut n_dec = 0u64;
        for k in 0..19u64 {
            for base in [p.add(&U::from_u64(k)), U::from_u64(k)] {
                for sign in [0u8, 0x80] {
                    let mut b = base.to_le32();
                    b[31] |= sign;
                    ctx.eval(1);
                    let case = json!({"kind": "key_decode", "bytes": hex(&b)});
                    ctx.case(&case.to_string());
                    let want = ed::decompress(&b);
                    let got = crate::ev::guarded(|| VerifyingKey::from_bytes(&b).ok().map(|k| (k.to_bytes(), k.is_weak(), curve25519_dalek::edwards::EdwardsPoint::from(k).compress().0)));
                    match (got, &want) {
                        (Err(e), _) => ctx.violation("verify.key_decode", &format!("panic: {}", e), case.clone()),
                        (Ok(None), None) => {}
                        (Ok(Some((tb, weak, pt))), Some(w)) => {
                            n_dec += 1;
                            let small = ed::torsion().iter().any(|t| t == w);
                            if tb != b || pt != w.compress() || weak != small {
                                ctx.violation("verify.key_decode", &format!("key {} decodes to {} (weak={}) but the curve point is {} (small order={})", hex(&b), hex(&pt), weak, hex(&w.compress()), small), case.clone());
                            }
                        }
                        (Ok(g), w) => ctx.violation("verify.key_decode", &format!("VerifyingKey::from_bytes accepts={} but the bytes {} a curve point", g.is_some(), if w.is_some() { "are" } else { "are not" }), case.clone()),
                    }
                    // and an (invalid unless the relation happens to hold) signature through every verifier
                    let s_int = U::from_u64(k + 1);
                    let mut sig = [0u8; 64];
                    sig[..32].copy_from_slice(&ed::mul_base(&s_int).compress());
                    sig[32..].copy_from_slice(&s_int.to_le32());
                    drive(ctx, &b, b"band", &sig, None, "noncanonical_band_key", &stats);
                }
            }
        }
        ctx.count("noncanonical_band_keys_decoded", n_dec);
    }
    // ---- (4) contexts longer than 255 bytes must be refused by every prehashed verifier
    for cl in [256usize, 257, 1000] {
        let seed = &sd[0];
        let key = eddsa::keygen(seed);
        let c = alpha::msg_of_len(cl, 0x40);
        let msg = b"long context".to_vec();
        // the signature a key holder can make with the *truncated length byte* (len as u8)
        let ph = eddsa::sha512(&[&msg]);
        let mut dom = b"SigEd25519 no Ed25519 collisions".to_vec();
        dom.push(1);
        dom.push(cl as u8);
        dom.extend_from_slice(&c);
        let sig = eddsa::sign_expanded(&key.a, &key.prefix, &key.public, &dom, &ph);
        drive(ctx, &key.public, &msg, &sig, Some(&c), &format!("context_len_{}", cl), &stats);
    }
    for (k, v) in stats.lock().unwrap().iter() {
        if k.starts_with("accepted_class_") {
            if k.contains("T") || k.contains("mixed") || k.contains("honest_R.S=honest") {
                ctx.count(k, *v);
            }
        } else {
            ctx.count(k, *v);
        }
    }
    let n_acc_small: u64 = stats.lock().unwrap().iter().filter(|(k, _)| k.starts_with("accepted_class_A=small")).map(|(_, v)| *v).sum();
    ctx.count("accepted_with_small_order_key_and_R", n_acc_small);
    ctx.sample_tag("verify", json!({"key": "T4 (0,-1)", "R": "T0", "S": "0", "note": "small-order key and R with manufactured message: accepted by verify, rejected by verify_strict"}));
}

fn class_of(e: &Enc) -> &'static str {
    match (&e.pt, e.tor) {
        (None, _) => "undecodable",
        (Some(p), _) if p.is_small_order() => {
            if e.name.contains("noncanonical") || e.name.contains("negzero") {
                "small-noncanonical"
            } else {
                "small"
            }
        }
        (Some(_), Some(0)) => "prime-order",
        _ => "mixed-order",
    }
}
