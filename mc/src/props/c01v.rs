//! C01 (vector part) — the 4-lane AVX2 and AVX-512 IFMA fields are exact arithmetic mod p,
//! lane-wise, for every operand inside each method's documented pre-condition; outputs
//! satisfy the documented post-condition.  Also serves C11(b): on the checked profile the
//! same enumeration enters every vector kernel at its contract boundary.

use crate::ev::{guarded, Ctx};
use crate::model::fp::Fp;
use crate::model::nat::U;
use serde_json::json;

const POS10: [usize; 10] = [0, 26, 51, 77, 102, 128, 153, 179, 204, 230];

pub fn val10(l: &[u32; 10]) -> Fp {
    let mut acc = U::ZERO;
    for i in 0..10 {
        acc = acc.add(&U::from_u64(l[i] as u64).shl(POS10[i]));
    }
    Fp::new(&acc)
}
pub fn val5(l: &[u64; 5]) -> Fp {
    let mut acc = U::ZERO;
    for i in 0..5 {
        acc = acc.add(&U::from_u64(l[i]).shl(51 * i));
    }
    Fp::new(&acc)
}

/// largest limb value allowed by "bounded with b": limb < 2^(w + b)
fn max_for(w: u32, b: f64) -> u32 {
    let v = ((1u64 << w) as f64 * 2f64.powf(b)).ceil() as u64 - 1;
    v.min(u32::MAX as u64) as u32
}
fn within(l: &[u32; 10], b: f64) -> bool {
    (0..10).all(|i| (l[i] as f64) < ((1u64 << (if i % 2 == 0 { 26 } else { 25 })) as f64) * 2f64.powf(b))
}

/// Per-lane limb patterns inside bound b, simplest first.
fn lane_patterns(b: f64) -> Vec<[u32; 10]> {
    let w = |i: usize| if i % 2 == 0 { 26u32 } else { 25 };
    let mk = |f: &dyn Fn(usize) -> u32| -> [u32; 10] {
        let mut a = [0u32; 10];
        for i in 0..10 {
            a[i] = f(i);
        }
        a
    };
    let mask = |i: usize| (1u32 << w(i)) - 1;
    let mx = |i: usize| max_for(w(i), b);
    let mut v = vec![
        mk(&|_| 0),
        mk(&|i| if i == 0 { 1 } else { 0 }),
        mk(&|i| mask(i).min(mx(i))),
        mk(&|i| mx(i)),
        mk(&|i| if i % 2 == 0 { mx(i) } else { 0 }),
        mk(&|i| if i % 2 == 1 { mx(i) } else { 0 }),
        mk(&|i| if i == 9 { mx(i) } else { mask(i).min(mx(i)) }),
        mk(&|i| if i == 0 { mask(i).min(mx(i)) - 18 } else { mask(i).min(mx(i)) }), // = p when fully reduced
    ];
    v.dedup();
    v
}

#[allow(unused_variables)]
pub fn run_avx2(ctx: &Ctx) {
    crate::with_avx2!({
        use curve25519_dalek::verif::avx2 as v;
        use curve25519_dalek::verif::Fe;
        if !v::available() {
            ctx.note("AVX2 not available: vector field not explored");
            return;
        }
        let quick = ctx.quick();
        type Raw = v::Raw;
        let vals = |r: &Raw| -> [Fp; 4] { [val10(&r[0]), val10(&r[1]), val10(&r[2]), val10(&r[3])] };
        let bound_ok = |r: &Raw, b: f64| -> bool { r.iter().all(|l| within(l, b)) };
        // combos of lane patterns: each lane gets pattern (base + k*stride) so that every lane sees every pattern
        let combos = |pats: &Vec<[u32; 10]>| -> Vec<Raw> {
            let n = pats.len();
            let mut out = Vec::new();
            for base in 0..n {
                for stride in 0..n {
                    out.push([pats[base % n], pats[(base + stride) % n], pats[(base + 2 * stride) % n], pats[(base + 3 * stride) % n]]);
                }
            }
            out.sort();
            out.dedup();
            out
        };
        let mut max_excess_seen: f64 = 0.0;
        let excess = |r: &Raw| -> f64 {
            let mut m: f64 = -100.0;
            for l in r.iter() {
                for i in 0..10 {
                    if l[i] > 0 {
                        let w = if i % 2 == 0 { 26.0 } else { 25.0 };
                        m = m.max(((l[i] as f64) + 1.0).log2() - w);
                    }
                }
            }
            m
        };
        let mut report = |ctx: &Ctx, key: &str, what: String, case: serde_json::Value| ctx.violation(key, &what, case);
        // ---- unary methods at their documented pre-condition
        struct UnOp {
            name: &'static str,
            pre: f64,
            post: f64,
        }
        let unops = [
            UnOp { name: "negate_lazy", pre: 0.999, post: 1.0 },
            // documented "b < 4.0"; the structural requirement is limb <= the matching limb of
            // 16p = 2^30 - 304 (resp. 2^30 - 16, 2^29 - 16), i.e. b < 3.9999996: the top 2^-21
            // sliver of the documented range is excluded (DESIGN.md section 7)
            UnOp { name: "neg", pre: 3.9999, post: 0.0002 },
            UnOp { name: "reduce", pre: 5.9, post: 0.0002 },
            UnOp { name: "square_and_negate_D", pre: 1.5, post: 0.007 },
            UnOp { name: "diff_sum", pre: 0.01, post: 1.6 },
            UnOp { name: "mulc", pre: 1.75, post: 0.007 },
            UnOp { name: "split", pre: 5.9, post: 0.0 },
        ];
        for op in &unops {
            let pats = lane_patterns(op.pre - 1e-9);
            for r in combos(&pats) {
                ctx.eval(1);
                let x = v::Fx4::from_raw(&r);
                let mv = vals(&r);
                let case = json!({"kind": "avx2_unary", "op": op.name, "lanes": r.iter().map(|l| l.to_vec()).collect::<Vec<_>>()});
                let out: Result<(Raw, [Fp; 4]), String> = guarded(|| match op.name {
                    "negate_lazy" => (x.negate_lazy().raw(), [mv[0].neg(), mv[1].neg(), mv[2].neg(), mv[3].neg()]),
                    "neg" => (x.neg().raw(), [mv[0].neg(), mv[1].neg(), mv[2].neg(), mv[3].neg()]),
                    "reduce" => (x.reduce().raw(), mv),
                    "square_and_negate_D" => (x.square_and_negate_d().raw(), [mv[0].sq(), mv[1].sq(), mv[2].sq(), mv[3].sq().neg()]),
                    "diff_sum" => (x.diff_sum().raw(), [mv[1].sub(&mv[0]), mv[1].add(&mv[0]), mv[3].sub(&mv[2]), mv[3].add(&mv[2])]),
                    "mulc" => {
                        let c = (121666u32, 121666, 2 * 121666, 2 * 121665);
                        (x.mulc(c).raw(), [mv[0].mul(&Fp::from_u64(c.0 as u64)), mv[1].mul(&Fp::from_u64(c.1 as u64)), mv[2].mul(&Fp::from_u64(c.2 as u64)), mv[3].mul(&Fp::from_u64(c.3 as u64))])
                    }
                    "split" => {
                        let s = x.split();
                        let sp = crate::props::c01::spec();
                        let got = [sp.value(&s[0].limbs()), sp.value(&s[1].limbs()), sp.value(&s[2].limbs()), sp.value(&s[3].limbs())];
                        assert!(got == mv, "split lanes differ from the vector's values");
                        (r, mv)
                    }
                    _ => unreachable!(),
                });
                match out {
                    Err(e) => report(ctx, &format!("fx4.{}", op.name), format!("panic: {}", e), case),
                    Ok((o, want)) => {
                        if vals(&o) != want {
                            report(ctx, &format!("fx4.{}", op.name), format!("lane values {:?} differ from exact arithmetic", o), case);
                        } else if op.name != "split" && !bound_ok(&o, op.post) {
                            report(ctx, &format!("fx4.{}.postcondition", op.name), format!("output excess {:.4} violates documented b < {}", excess(&o), op.post), case);
                        }
                        max_excess_seen = max_excess_seen.max(excess(&r));
                    }
                }
            }
        }
        // ---- binary: mul (lhs b < 2.5, rhs b < 1.75), add
        {
            let lp = lane_patterns(2.5 - 1e-9);
            let rp = lane_patterns(1.75 - 1e-9);
            let (lc, rc) = (combos(&lp), combos(&rp));
            let stride = if quick { 3 } else { 1 };
            for (i, a) in lc.iter().enumerate() {
                for b in rc.iter().skip(i % stride).step_by(stride) {
                    ctx.eval(2);
                    let (xa, xb) = (v::Fx4::from_raw(a), v::Fx4::from_raw(b));
                    let (ma, mb) = (vals(a), vals(b));
                    let case = json!({"kind": "avx2_binary", "a": a.iter().map(|l| l.to_vec()).collect::<Vec<_>>(), "b": b.iter().map(|l| l.to_vec()).collect::<Vec<_>>()});
                    match guarded(|| xa.mul(&xb).raw()) {
                        Err(e) => report(ctx, "fx4.mul", format!("panic: {}", e), case.clone()),
                        Ok(o) => {
                            let want = [ma[0].mul(&mb[0]), ma[1].mul(&mb[1]), ma[2].mul(&mb[2]), ma[3].mul(&mb[3])];
                            if vals(&o) != want {
                                report(ctx, "fx4.mul", "lane products differ from exact arithmetic".into(), case.clone());
                            } else if !bound_ok(&o, 0.007) {
                                report(ctx, "fx4.mul.postcondition", format!("output excess {:.4} violates documented b < 0.007", excess(&o)), case.clone());
                            }
                        }
                    }
                    match guarded(|| xa.add(&xb).raw()) {
                        Err(e) => report(ctx, "fx4.add", format!("panic: {}", e), case.clone()),
                        Ok(o) => {
                            let want = [ma[0].add(&mb[0]), ma[1].add(&mb[1]), ma[2].add(&mb[2]), ma[3].add(&mb[3])];
                            if vals(&o) != want {
                                report(ctx, "fx4.add", "lane sums differ".into(), case.clone());
                            }
                        }
                    }
                }
            }
        }
        // ---- lane permutations: shuffle (all), blend (all), select
        {
            let a: Raw = {
                let p = lane_patterns(0.9);
                [p[1], p[2], p[3], p[4]]
            };
            let b: Raw = {
                let p = lane_patterns(0.9);
                [p[5], p[6], p[7], p[3]]
            };
            // second round: every limb of every lane of both operands different from every other one, so that a
            // permutation, blend or select that takes a limb or a lane from the wrong place cannot go unnoticed
            let tag = |off: u32| -> Raw {
                let mut r = [[0u32; 10]; 4];
                for lane in 0..4 {
                    for i in 0..10 {
                        r[lane][i] = off + 1000 * lane as u32 + 10 * i as u32 + 1;
                    }
                }
                r
            };
            for (a, b) in [(a, b), (tag(0), tag(500_000))] {
            let (xa, xb) = (v::Fx4::from_raw(&a), v::Fx4::from_raw(&b));
            for i in 0..v::SHUFFLES {
                ctx.eval(1);
                let name = v::shuffle_name(i);
                let want: Raw = {
                    let mut w = [[0u32; 10]; 4];
                    for (k, c) in name.chars().enumerate() {
                        w[k] = a[(c as u8 - b'A') as usize];
                    }
                    w
                };
                if guarded(|| xa.shuffle(i).raw()) != Ok(want) {
                    report(ctx, "fx4.shuffle", format!("shuffle {} permutes lanes wrongly", name), json!({"kind": "avx2_shuffle", "control": name}));
                }
            }
            for i in 0..v::BLENDS {
                ctx.eval(1);
                let name = v::lanes_name(i);
                let want: Raw = {
                    let mut w = a;
                    for c in name.chars() {
                        let k = (c as u8 - b'A') as usize;
                        w[k] = b[k];
                    }
                    w
                };
                if guarded(|| xa.blend(&xb, i).raw()) != Ok(want) {
                    report(ctx, "fx4.blend", format!("blend {} selects lanes wrongly", name), json!({"kind": "avx2_blend", "control": name}));
                }
            }
            for c in [false, true] {
                ctx.eval(2);
                let want = if c { b } else { a };
                if v::Fx4::conditional_select(&xa, &xb, c).raw() != want || xa.conditional_assign(&xb, c).raw() != want {
                    report(ctx, "fx4.conditional_select", "select/assign".into(), json!({"kind": "avx2_select", "choice": c}));
                }
            }
            }
        }
        // ---- new / splat / split round trip on serial corner elements
        {
            let sp = crate::props::c01::spec();
            let lat: Vec<Vec<u64>> = (0..sp.n).map(|i| sp.lattice(i)).collect();
            // the lattice must contain limbs >= 2^51 (serial elements are only weakly reduced)
            let k = if quick { 5 } else { 7 };
            let total = sp.count(&lat, k);
            for idx in (0..total).step_by(if quick { 11 } else { 13 }) {
                ctx.eval(1);
                let la = sp.vector(&lat, k, idx);
                let lb = sp.vector(&lat, k, (idx * 31 + 7) % total);
                let (fa, fb) = (Fe::from_limbs(&la), Fe::from_limbs(&lb));
                let (va, vb) = (sp.value(&la), sp.value(&lb));
                let case = json!({"kind": "avx2_new", "a": la, "b": lb});
                // four pairwise different lanes through new -> split, all four compared limb-exactly where the
                // element is already reduced, by value otherwise
                {
                    let lc = sp.vector(&lat, k, (idx * 17 + 3) % total);
                    let ld: Vec<u64> = (0..sp.n).map(|i| 1000 + 10 * i as u64 + (idx as u64 % 7)).collect();
                    let fs = [fa, fb, Fe::from_limbs(&lc), Fe::from_limbs(&ld)];
                    let want = [va, vb, sp.value(&lc), sp.value(&ld)];
                    match guarded(|| v::Fx4::new(&fs).split()) {
                        Err(e) => report(ctx, "fx4.new_split", format!("panic: {}", e), case.clone()),
                        Ok(s) => {
                            let got: Vec<Fp> = s.iter().map(|f| sp.value(&f.limbs())).collect();
                            if got != want.to_vec() {
                                report(ctx, "fx4.new_split", "split(new(a, b, c, d)) != (a, b, c, d)".into(), case.clone());
                            }
                        }
                    }
                }
                match guarded(|| (v::Fx4::new(&[fa, fb, fb, fa]).raw(), v::Fx4::splat(&fa).raw())) {
                    Err(e) => report(ctx, "fx4.new", format!("panic: {}", e), case),
                    Ok((o, s)) => {
                        if vals(&o) != [va, vb, vb, va] || vals(&s) != [va, va, va, va] {
                            report(ctx, "fx4.new", "lane values differ from the inputs".into(), case);
                        } else if !bound_ok(&o, 0.0002) {
                            report(ctx, "fx4.new.postcondition", format!("output excess {:.5} violates documented b < 0.0002", excess(&o)), case);
                        }
                    }
                }
            }
        }
        ctx.count("avx2_max_input_excess_milli", (max_excess_seen * 1000.0) as u64);
        ctx.sample_tag("avx2", json!({"op": "mul", "lhs_bound": "b < 2.5", "rhs_bound": "b < 1.75", "note": "all limbs of all lanes simultaneously at the documented bound"}));
    });
}

#[allow(unused_variables)]
pub fn run_ifma(ctx: &Ctx) {
    crate::with_ifma!({
        use curve25519_dalek::verif::ifma as v;
        use curve25519_dalek::verif::Fe;
        if !v::available() {
            ctx.note("AVX-512 IFMA not available: vector field not explored");
            return;
        }
        let quick = ctx.quick();
        type Raw = v::Raw;
        let vals = |r: &Raw| -> [Fp; 4] { [val5(&r[0]), val5(&r[1]), val5(&r[2]), val5(&r[3])] };
        let m51 = (1u64 << 51) - 1;
        // reduced vectors: limbs <= 2^51 + 19*2^13 (what the reduction produces); unreduced: up to 16p's limbs
        let red_max = (1u64 << 51) + 19 * (1 << 13);
        let pats = |mx: u64| -> Vec<[u64; 5]> {
            vec![
                [0; 5],
                [1, 0, 0, 0, 0],
                [m51; 5],
                [mx; 5],
                [mx, 0, mx, 0, mx],
                [0, mx, 0, mx, 0],
                [m51 - 18, m51, m51, m51, m51],
                [m51, m51, m51, m51, mx],
            ]
        };
        let combos = |p: &Vec<[u64; 5]>| -> Vec<Raw> {
            let n = p.len();
            let mut out = Vec::new();
            for base in 0..n {
                for stride in 0..n {
                    out.push([p[base % n], p[(base + stride) % n], p[(base + 2 * stride) % n], p[(base + 3 * stride) % n]]);
                }
            }
            out.sort();
            out.dedup();
            out
        };
        let red = combos(&pats(red_max));
        // unreduced vectors feed negate_lazy / diff_sum, which compute 16p - x: limbs up to the
        // matching limb of 16p (2^55 - 304) are inside the contract
        let unr = combos(&pats((1u64 << 55) - 305));
        let report = |key: &str, what: String, case: serde_json::Value| ctx.violation(key, &what, case);
        let lanes_json = |r: &Raw| r.iter().map(|l| l.to_vec()).collect::<Vec<_>>();
        // reduced x reduced -> unreduced product; square; mulc; neg
        let stride = if quick { 3 } else { 1 };
        for (i, a) in red.iter().enumerate() {
            let xa = v::Rx4::from_raw(a);
            let ma = vals(a);
            let case = json!({"kind": "ifma_unary", "lanes": lanes_json(a)});
            ctx.eval(4);
            match guarded(|| (xa.square().raw(), xa.mulc((121666, 121666, 2 * 121666, 2 * 121665)).raw(), xa.neg().raw(), xa.unreduced().raw())) {
                Err(e) => report("ifma.unary", format!("panic: {}", e), case),
                Ok((sq, mc, ng, un)) => {
                    if vals(&sq) != [ma[0].sq(), ma[1].sq(), ma[2].sq(), ma[3].sq()] {
                        report("ifma.square", "lane squares differ".into(), case.clone());
                    }
                    let c = [121666u64, 121666, 2 * 121666, 2 * 121665];
                    if vals(&mc) != [ma[0].mul(&Fp::from_u64(c[0])), ma[1].mul(&Fp::from_u64(c[1])), ma[2].mul(&Fp::from_u64(c[2])), ma[3].mul(&Fp::from_u64(c[3]))] {
                        report("ifma.mulc", "lane products by constants differ".into(), case.clone());
                    }
                    if vals(&ng) != [ma[0].neg(), ma[1].neg(), ma[2].neg(), ma[3].neg()] || ng.iter().any(|l| l.iter().any(|x| *x > red_max)) {
                        report("ifma.neg", "lane negations differ or are not reduced".into(), case.clone());
                    }
                    if un != *a {
                        report("ifma.unreduced", "From<Reduced> changes limbs".into(), case.clone());
                    }
                }
            }
            for b in red.iter().skip(i % stride).step_by(stride) {
                ctx.eval(1);
                let xb = v::Rx4::from_raw(b);
                let mb = vals(b);
                let case = json!({"kind": "ifma_mul", "a": lanes_json(a), "b": lanes_json(b)});
                match guarded(|| xa.mul(&xb).raw()) {
                    Err(e) => report("ifma.mul", format!("panic: {}", e), case),
                    Ok(o) => {
                        if vals(&o) != [ma[0].mul(&mb[0]), ma[1].mul(&mb[1]), ma[2].mul(&mb[2]), ma[3].mul(&mb[3])] {
                            report("ifma.mul", "lane products differ from exact arithmetic".into(), case);
                        }
                    }
                }
            }
        }
        // unreduced: add, negate_lazy, diff_sum, reduce
        for (i, a) in unr.iter().enumerate() {
            let xa = v::Ux4::from_raw(a);
            let ma = vals(a);
            let case = json!({"kind": "ifma_unreduced", "lanes": lanes_json(a)});
            ctx.eval(3);
            match guarded(|| (xa.negate_lazy().raw(), xa.diff_sum().raw(), xa.reduce().raw())) {
                Err(e) => report("ifma.unreduced", format!("panic: {}", e), case),
                Ok((ng, ds, rd)) => {
                    if vals(&ng) != [ma[0].neg(), ma[1].neg(), ma[2].neg(), ma[3].neg()] {
                        report("ifma.negate_lazy", "lane negations differ".into(), case.clone());
                    }
                    if vals(&ds) != [ma[1].sub(&ma[0]), ma[1].add(&ma[0]), ma[3].sub(&ma[2]), ma[3].add(&ma[2])] {
                        report("ifma.diff_sum", "diff_sum lanes differ".into(), case.clone());
                    }
                    if vals(&rd) != ma || rd.iter().any(|l| l.iter().any(|x| *x > red_max)) {
                        report("ifma.reduce", "reduction changes the value or leaves limbs unreduced".into(), case.clone());
                    }
                }
            }
            for b in unr.iter().skip(i % stride).step_by(stride * 2) {
                ctx.eval(1);
                let xb = v::Ux4::from_raw(b);
                let mb = vals(b);
                if guarded(|| vals(&xa.add(&xb).raw())) != Ok([ma[0].add(&mb[0]), ma[1].add(&mb[1]), ma[2].add(&mb[2]), ma[3].add(&mb[3])]) {
                    report("ifma.add", "lane sums differ".into(), json!({"kind": "ifma_add", "a": lanes_json(a), "b": lanes_json(b)}));
                }
            }
        }
        // shuffles / blends / select / new / split
        {
            let a: Raw = [pats(red_max)[1], pats(red_max)[2], pats(red_max)[3], pats(red_max)[4]];
            let b: Raw = [pats(red_max)[5], pats(red_max)[6], pats(red_max)[7], pats(red_max)[3]];
            let tag = |off: u64| -> Raw {
                let mut r = [[0u64; 5]; 4];
                for lane in 0..4 {
                    for i in 0..5 {
                        r[lane][i] = off + 1000 * lane as u64 + 10 * i as u64 + 1;
                    }
                }
                r
            };
            for (a, b) in [(a, b), (tag(0), tag(1 << 40))] {
            let (ua, ub) = (v::Ux4::from_raw(&a), v::Ux4::from_raw(&b));
            let (ra, rb) = (v::Rx4::from_raw(&a), v::Rx4::from_raw(&b));
            for i in 0..v::SHUFFLES {
                ctx.eval(2);
                let name = v::shuffle_name(i);
                let mut w = [[0u64; 5]; 4];
                for (k, c) in name.chars().enumerate() {
                    w[k] = a[(c as u8 - b'A') as usize];
                }
                if guarded(|| (ua.shuffle(i).raw(), ra.shuffle(i).raw())) != Ok((w, w)) {
                    report("ifma.shuffle", format!("shuffle {} permutes lanes wrongly", name), json!({"kind": "ifma_shuffle", "control": name}));
                }
            }
            for i in 0..v::BLENDS {
                ctx.eval(2);
                let name = v::lanes_name(i);
                let mut w = a;
                for c in name.chars() {
                    let k = (c as u8 - b'A') as usize;
                    w[k] = b[k];
                }
                if guarded(|| (ua.blend(&ub, i).raw(), ra.blend(&rb, i).raw())) != Ok((w, w)) {
                    report("ifma.blend", format!("blend {} selects lanes wrongly", name), json!({"kind": "ifma_blend", "control": name}));
                }
            }
            for c in [false, true] {
                ctx.eval(2);
                let want = if c { b } else { a };
                if v::Rx4::conditional_select(&ra, &rb, c).raw() != want || ra.conditional_assign(&rb, c).raw() != want {
                    report("ifma.conditional_select", "select/assign".into(), json!({"kind": "ifma_select", "choice": c}));
                }
            }
            }
            let sp = crate::props::c01::spec();
            let lat: Vec<Vec<u64>> = (0..sp.n).map(|i| sp.lattice(i)).collect();
            let total = sp.count(&lat, 3);
            for idx in (0..total).step_by(5) {
                ctx.eval(1);
                let la = sp.vector(&lat, 3, idx);
                let lb = sp.vector(&lat, 3, (idx * 31 + 7) % total);
                // four different lanes, and (second round) limbs tagged by lane and position, so that a lane or limb
                // taken from the wrong place cannot coincide with the right one; all four outputs are compared
                let lc = sp.vector(&lat, 3, (idx * 17 + 3) % total);
                let ld = sp.vector(&lat, 3, (idx * 13 + 11) % total);
                let tag = |lane: u64| -> Vec<u64> { (0..5u64).map(|i| (1u64 << 50) + 1000 * lane + 10 * i + (idx as u64 % 7)).collect() };
                for lanes in [[la.clone(), lb.clone(), lc.clone(), ld.clone()], [tag(1), tag(2), tag(3), tag(4)]] {
                    let f: Vec<Fe> = lanes.iter().map(|l| Fe::from_limbs(l)).collect();
                    let x = v::Ux4::new(&[f[0], f[1], f[2], f[3]]);
                    let s = x.split();
                    let raw = x.raw();
                    let ok = (0..4).all(|k| raw[k].to_vec() == lanes[k] && s[k].limbs() == lanes[k]);
                    if !ok {
                        report("ifma.new_split", "new/split do not preserve the limbs of every lane".into(), json!({"kind": "ifma_new", "lanes": lanes}));
                    }
                }
            }
        }
        ctx.sample_tag("ifma", json!({"op": "mul", "operands": "reduced vectors with every limb at 2^51 + 19*2^13", "note": "vpmadd52 uses only the low 52 bits of each multiplicand"}));
    });
}
