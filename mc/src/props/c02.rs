//! C02 — scalar arithmetic is exact arithmetic mod l with canonical output.

use crate::alpha;
use crate::ev::{guarded, Ctx};
use crate::model::eddsa::sha512;
use crate::model::nat::{hex, U};
use crate::model::zl::{l, Zl};
use crate::real::{self, IdDigest, ScriptRng};
use curve25519_dalek::scalar::Scalar;
use curve25519_dalek::verif::{Usc, SC_LIMBS, SC_LIMB_BITS};
use rayon::prelude::*;
use serde_json::json;
use sha2::Sha512;
use stateright::{Model, Property};
use std::sync::atomic::{AtomicU64, Ordering};

fn canon_check(got: &Scalar, want: &Zl) -> Result<(), String> {
    if got.to_bytes() != want.to_bytes() {
        return Err(format!("got {} want {}", hex(&got.to_bytes()), hex(&want.to_bytes())));
    }
    if got.as_bytes() != &want.to_bytes() {
        return Err("as_bytes differs from to_bytes".into());
    }
    Ok(())
}

#[derive(Clone, Copy, Debug, PartialEq, Eq, Hash, serde::Serialize, serde::Deserialize)]
pub enum Op {
    AddL(usize),
    SubL(usize),
    SubR(usize),
    MulL(usize),
    MulR(usize),
    AddAssign(usize),
    SubAssign(usize),
    MulAssign(usize),
    Neg,
    Invert,
    Square,
    Double,
}

#[derive(Clone, Debug, PartialEq, Eq, Hash)]
struct St {
    depth: u8,
    val: U, // canonical value (< l): the state *is* the value
    bad: Option<String>,
}

struct Machine {
    inits: Vec<U>,
    pool: Vec<U>,
    max_depth: u8,
    ctx: usize, // *const Ctx
}
impl Machine {
    fn ctx(&self) -> &Ctx {
        unsafe { &*(self.ctx as *const Ctx) }
    }
}

pub fn step(op: Op, a: &U, pool: &[U]) -> Result<U, String> {
    let ra = real::scalar(a);
    let ma = Zl(*a);
    let pc = |i: usize| (real::scalar(&pool[i]), Zl(pool[i]));
    let (got, want): (Scalar, Zl) = guarded(|| match op {
        Op::AddL(i) => {
            let (rc, mc) = pc(i);
            (&ra + &rc, ma.add(&mc))
        }
        Op::SubL(i) => {
            let (rc, mc) = pc(i);
            (&ra - &rc, ma.sub(&mc))
        }
        Op::SubR(i) => {
            let (rc, mc) = pc(i);
            (&rc - &ra, mc.sub(&ma))
        }
        Op::MulL(i) => {
            let (rc, mc) = pc(i);
            (&ra * &rc, ma.mul(&mc))
        }
        Op::MulR(i) => {
            let (rc, mc) = pc(i);
            (&rc * &ra, mc.mul(&ma))
        }
        Op::AddAssign(i) => {
            let (rc, mc) = pc(i);
            let mut x = ra;
            x += &rc;
            (x, ma.add(&mc))
        }
        Op::SubAssign(i) => {
            let (rc, mc) = pc(i);
            let mut x = ra;
            x -= &rc;
            (x, ma.sub(&mc))
        }
        Op::MulAssign(i) => {
            let (rc, mc) = pc(i);
            let mut x = ra;
            x *= &rc;
            (x, ma.mul(&mc))
        }
        Op::Neg => (-&ra, ma.neg()),
        Op::Invert => (ra.invert(), ma.inv()),
        Op::Square => (&ra * &ra, ma.mul(&ma)),
        Op::Double => (&ra + &ra, ma.add(&ma)),
    })
    .map_err(|e| format!("panic: {}", e))?;
    canon_check(&got, &want)?;
    Ok(want.0)
}

impl Model for Machine {
    type State = St;
    type Action = Op;
    fn init_states(&self) -> Vec<St> {
        self.inits.iter().map(|v| St { depth: 0, val: *v, bad: None }).collect()
    }
    fn actions(&self, s: &St, out: &mut Vec<Op>) {
        if s.bad.is_some() || s.depth >= self.max_depth {
            return;
        }
        out.extend([Op::Neg, Op::Square, Op::Double]);
        if !s.val.is_zero() {
            out.push(Op::Invert);
        }
        for i in 0..self.pool.len() {
            out.extend([Op::AddL(i), Op::SubL(i), Op::SubR(i), Op::MulL(i), Op::MulR(i)]);
            if s.depth == 0 {
                out.extend([Op::AddAssign(i), Op::SubAssign(i), Op::MulAssign(i)]);
            }
        }
    }
    fn next_state(&self, s: &St, a: Op) -> Option<St> {
        crate::apply_force();
        self.ctx().transitions.fetch_add(1, Ordering::Relaxed);
        Some(match step(a, &s.val, &self.pool) {
            Ok(v) => St { depth: s.depth + 1, val: v, bad: None },
            Err(e) => St { depth: s.depth + 1, val: s.val, bad: Some(format!("{:?} on {}: {}", a, s.val.hex(), e)) },
        })
    }
    fn properties(&self) -> Vec<Property<Self>> {
        vec![Property::always("exact mod l", |_, s: &St| s.bad.is_none())]
    }
}

fn limbs_of(x: &U) -> Vec<u64> {
    (0..SC_LIMBS)
        .map(|i| x.shr(SC_LIMB_BITS as usize * i).low_bits(SC_LIMB_BITS as usize).low_u64())
        .collect()
}
fn value_of(l: &[u64]) -> U {
    let mut acc = U::ZERO;
    for (i, x) in l.iter().enumerate() {
        acc = acc.add(&U::from_u64(*x).shl(SC_LIMB_BITS as usize * i));
    }
    acc
}

pub fn run(ctx: &Ctx) {
    let quick = ctx.quick();
    let ints = alpha::sc_ints();
    let lm = l();
    // ---- reducing constructors, canonical decoding
    let mut rejected = 0u64;
    let mut cands: Vec<U> = ints.clone();
    for k in 0..40u64 {
        cands.push(lm.add(&U::from_u64(k)));
        if k > 0 {
            cands.push(lm.sub(&U::from_u64(k)));
        }
    }
    for j in 0..256 {
        cands.push(U::pow2(j));
        if j > 0 {
            cands.push(U::pow2(j).sub(&U::ONE));
        }
        let x = lm.add(&U::pow2(j));
        if x.bits() <= 256 {
            cands.push(x);
        }
    }
    for x in &cands {
        ctx.eval(2);
        let b = x.to_le32();
        let want = Zl::new(x);
        match guarded(|| Scalar::from_bytes_mod_order(b)) {
            Ok(s) => {
                if let Err(e) = canon_check(&s, &want) {
                    ctx.violation("sc.from_bytes_mod_order", &e, json!({"kind": "reduce256", "bytes": hex(&b)}));
                }
                ctx.record(&format!("sc.from_bytes_mod_order/{}", hex(&b)), &s.to_bytes());
            }
            Err(e) => ctx.violation("sc.from_bytes_mod_order", &format!("panic: {}", e), json!({"kind": "reduce256", "bytes": hex(&b)})),
        }
        let got: Option<Scalar> = guarded(|| Scalar::from_canonical_bytes(b).into()).unwrap_or(None);
        let should = *x < lm;
        if !should {
            rejected += 1;
        }
        let ok = match (&got, should) {
            (Some(s), true) => s.to_bytes() == b,
            (None, false) => true,
            _ => false,
        };
        if !ok {
            ctx.violation(
                "sc.from_canonical_bytes",
                &format!("accepts={} but integer<l is {}", got.is_some(), should),
                json!({"kind": "canonical", "bytes": hex(&b)}),
            );
        }
        ctx.record(&format!("sc.from_canonical_bytes/{}", hex(&b)), &[got.is_some() as u8]);
        // legacy builds only: the deprecated unreduced constructor keeps the low 255 bits as they are, and the one
        // operation documented for such scalars (scalar times point) computes the product for that integer
        #[cfg(feature = "legacy")]
        {
            ctx.eval(1);
            #[allow(deprecated)]
            let fb = Scalar::from_bits(b);
            let mut wantb = b;
            wantb[31] &= 0x7f;
            let int = U::from_le(&wantb);
            let bp = curve25519_dalek::constants::ED25519_BASEPOINT_POINT;
            let prod = guarded(|| (&bp * &fb).compress().0);
            if fb.to_bytes() != wantb || prod != Ok(crate::model::ed::mul_base(&int).compress()) {
                ctx.violation("sc.from_bits", "from_bits does not keep the low 255 bits, or B * from_bits(x) != [x]B", json!({"kind": "from_bits", "bytes": hex(&b)}));
            }
        }
    }
    ctx.count("noncanonical_encodings_rejected", rejected);
    ctx.count("reduce256_inputs", cands.len() as u64);
    // 512-bit
    let nw = if quick { 24 } else { 48 };
    let simple: Vec<U> = ints.iter().take(nw).cloned().collect();
    let wide_nontriv = std::sync::atomic::AtomicU64::new(0);
    simple.par_iter().for_each(|hi| {
        for lo in &simple {
            ctx.eval(3);
            let mut b = [0u8; 64];
            b[..32].copy_from_slice(&lo.to_le32());
            b[32..].copy_from_slice(&hi.to_le32());
            let want = Zl::from_le(&b);
            if !hi.is_zero() {
                wide_nontriv.fetch_add(1, Ordering::Relaxed);
            }
            let case = json!({"kind": "reduce512", "bytes": hex(&b)});
            match guarded(|| Scalar::from_bytes_mod_order_wide(&b)) {
                Ok(s) => {
                    if let Err(e) = canon_check(&s, &want) {
                        ctx.violation("sc.from_bytes_mod_order_wide", &e, case.clone());
                    }
                    ctx.record(&format!("sc.from_bytes_mod_order_wide/{}", hex(&b)), &s.to_bytes());
                }
                Err(e) => ctx.violation("sc.from_bytes_mod_order_wide", &format!("panic: {}", e), case.clone()),
            }
            // the hash seams with the identity digest: post-hash value placed exactly
            match guarded(|| (Scalar::hash_from_bytes::<IdDigest>(&b), {
                let mut h = IdDigest::default();
                digest::Update::update(&mut h, &b[..10]);
                digest::Update::update(&mut h, &b[10..]);
                Scalar::from_hash(h)
            })) {
                Ok((s1, s2)) => {
                    if canon_check(&s1, &want).is_err() || canon_check(&s2, &want).is_err() {
                        ctx.violation("sc.from_hash", "hash-to-scalar differs from reduction of the digest", case.clone());
                    }
                }
                Err(e) => ctx.violation("sc.from_hash", &format!("panic: {}", e), case.clone()),
            }
            // Scalar::random consumes 64 bytes and reduces them
            let mut rng = ScriptRng::new(&b);
            match guarded(|| Scalar::random(&mut rng)) {
                Ok(s) => {
                    if canon_check(&s, &want).is_err() {
                        ctx.violation("sc.random", "Scalar::random differs from reduction of the 64 RNG bytes", case.clone());
                    }
                }
                Err(e) => ctx.violation("sc.random", &format!("panic: {}", e), case.clone()),
            }
        }
    });
    ctx.count("reduce512_inputs_with_nonzero_high_half", wide_nontriv.load(Ordering::Relaxed));
    // The wide reduction splits its input at the Montgomery radix (2^260 for 52-bit limbs, 2^261 for 29-bit limbs) and
    // ends in conditional subtractions of l: whether one subtraction suffices is decided on a thin slice where both
    // parts are near their maxima.  Grid: (radix - 1 - a) + (top - b) * radix for a, b over small values and powers
    // of two, for both radices.
    {
        let offs: Vec<U> = {
            let mut v: Vec<U> = (0..(if quick { 24u64 } else { 48 })).map(U::from_u64).collect();
            for k in (5..250).step_by(if quick { 7 } else { 3 }) {
                v.push(U::pow2(k));
                v.push(U::pow2(k).sub(&U::ONE));
            }
            v
        };
        let mut grid: Vec<[u8; 64]> = Vec::new();
        for rb in [260usize, 261] {
            let radix_m1 = U::pow2(rb).sub(&U::ONE);
            let top = U::pow2(512 - rb).sub(&U::ONE);
            for a in &offs {
                if a.bits() >= rb {
                    continue;
                }
                for b in &offs {
                    if b.bits() >= 512 - rb {
                        continue;
                    }
                    let lo = radix_m1.sub(a);
                    let hi = top.sub(b);
                    // lo + hi * 2^rb as 64 little-endian bytes (the value needs all 512 bits: assemble by parts)
                    let mut bytes = [0u8; 64];
                    let lob = lo.to_le64();
                    bytes[..33].copy_from_slice(&lob[..33]);
                    let hib = hi.shl(rb % 8).to_le64();
                    for (i, x) in hib.iter().enumerate() {
                        if rb / 8 + i < 64 {
                            bytes[rb / 8 + i] |= *x;
                        }
                    }
                    grid.push(bytes);
                }
            }
        }
        ctx.bound("reduce512_boundary_grid", json!(grid.len()));
        let bad = AtomicU64::new(0);
        grid.par_iter().for_each(|b| {
            ctx.eval(1);
            let want = Zl::from_le(b);
            match guarded(|| Scalar::from_bytes_mod_order_wide(b)) {
                Ok(s) => {
                    if let Err(e) = canon_check(&s, &want) {
                        if bad.fetch_add(1, Ordering::Relaxed) < 8 {
                            ctx.violation("sc.from_bytes_mod_order_wide", &e, json!({"kind": "reduce512_boundary", "bytes": hex(b)}));
                        }
                    }
                    ctx.record(&format!("sc.from_bytes_mod_order_wide/{}", hex(b)), &s.to_bytes());
                }
                Err(e) => ctx.violation("sc.from_bytes_mod_order_wide", &format!("panic: {}", e), json!({"kind": "reduce512_boundary", "bytes": hex(b)})),
            }
        });
    }
    // SHA-512 hash to scalar
    for n in alpha::msg_lens() {
        ctx.eval(1);
        let msg = alpha::msg_of_len(n, 7);
        let want = Zl::from_le(&sha512(&[&msg]));
        let got = Scalar::hash_from_bytes::<Sha512>(&msg);
        if let Err(e) = canon_check(&got, &want) {
            ctx.violation("sc.hash_from_bytes", &e, json!({"kind": "hash", "len": n}));
        }
        ctx.record(&format!("sc.hash_from_bytes/{}", n), &got.to_bytes());
    }
    // integer conversions
    {
        let mut vals: Vec<u128> = vec![0, 1, 2, 255, 256, 65535, 65536, u32::MAX as u128, 1 << 32, u64::MAX as u128, 1 << 64, u128::MAX, u128::MAX - 1];
        for k in 0..128 {
            vals.push(1u128 << k);
            vals.push((1u128 << k).wrapping_sub(1));
        }
        for v in vals {
            ctx.eval(1);
            let want = Zl::new(&U::from_u128(v));
            let mut bad = vec![];
            if canon_check(&Scalar::from(v), &want).is_err() {
                bad.push("u128");
            }
            if v <= u64::MAX as u128 && canon_check(&Scalar::from(v as u64), &want).is_err() {
                bad.push("u64");
            }
            if v <= u32::MAX as u128 && canon_check(&Scalar::from(v as u32), &want).is_err() {
                bad.push("u32");
            }
            if v <= u16::MAX as u128 && canon_check(&Scalar::from(v as u16), &want).is_err() {
                bad.push("u16");
            }
            if v <= u8::MAX as u128 && canon_check(&Scalar::from(v as u8), &want).is_err() {
                bad.push("u8");
            }
            for b in bad {
                ctx.violation(&format!("sc.from_{}", b), "integer conversion", json!({"kind": "from_int", "value": v.to_string()}));
            }
        }
    }
    // ---- equality, constant-time equality, conditional selection, Default, indexing
    {
        use subtle::{Choice, ConditionallySelectable, ConstantTimeEq};
        let mut vals: Vec<U> = alpha::sc_reduced(60);
        // values that differ in exactly one byte position (first, middle, last) from another
        for pos in [0usize, 15, 30, 31] {
            let mut b = U::from_u64(5).to_le32();
            b[pos] ^= 1;
            let x = U::from_le(&b);
            if x < lm {
                vals.push(x);
            }
        }
        vals.push(U::from_u64(5));
        for a in &vals {
            for b in &vals {
                ctx.eval(1);
                let (ra, rb) = (real::scalar(a), real::scalar(b));
                let same = a == b;
                let mut bad = vec![];
                if (ra == rb) != same || bool::from(ra.ct_eq(&rb)) != same {
                    bad.push("eq");
                }
                if Scalar::conditional_select(&ra, &rb, Choice::from(0)).to_bytes() != a.to_le32() || Scalar::conditional_select(&ra, &rb, Choice::from(1)).to_bytes() != b.to_le32() {
                    bad.push("conditional_select");
                }
                if (0..32).any(|i| ra[i] != a.to_le32()[i]) {
                    bad.push("index");
                }
                for e in bad {
                    ctx.violation(&format!("sc.{}", e), "equality / selection / indexing disagrees with the values", json!({"kind": "sc_eq", "a": a.hex(), "b": b.hex()}));
                }
            }
        }
        ctx.eval(1);
        if Scalar::default().to_bytes() != [0u8; 32] {
            ctx.violation("sc.default", "Default is not zero", json!({"kind": "sc_default"}));
        }
    }
    // ---- sums, products, batch inversion over sequences
    {
        let pool: Vec<U> = vec![U::ONE, U::from_u64(2), lm.sub(&U::ONE), U::pow2(252), lm.sub(&U::ONE).shr(1), U::pow2(260).rem(&lm)];
        let maxn = if quick { 3 } else { 4 };
        let mut seqs: Vec<Vec<usize>> = vec![vec![]];
        let mut frontier = seqs.clone();
        for _ in 0..maxn {
            let mut next = vec![];
            for s in &frontier {
                for i in 0..pool.len() {
                    let mut t = s.clone();
                    t.push(i);
                    next.push(t);
                }
            }
            seqs.extend(next.iter().cloned());
            frontier = next;
        }
        // plus long batches
        for n in [5usize, 6, 17, 64] {
            seqs.push((0..n).map(|i| i % pool.len()).collect());
        }
        // long runs of one maximal element and long mixed runs: an accumulator that defers reduction overflows its
        // reduction's precondition only after hundreds of terms (lengths on both sides of the powers of two)
        for n in [255usize, 256, 257, 511, 512, 513, 514, 1023, 1025, 2047, 2048, 2049, 4097] {
            for i in [2usize, 3, 4] {
                seqs.push(vec![i; n]); // l-1, 2^252, (l-1)/2
            }
            seqs.push((0..n).map(|i| 2 + i % 3).collect());
        }
        ctx.count("sum_product_batch_sequences", seqs.len() as u64);
        seqs.par_iter().for_each(|s| {
            ctx.eval(3);
            let rs: Vec<Scalar> = s.iter().map(|i| real::scalar(&pool[*i])).collect();
            let ms: Vec<Zl> = s.iter().map(|i| Zl(pool[*i])).collect();
            let msum = ms.iter().fold(Zl::ZERO, |a, b| a.add(b));
            let mprod = ms.iter().fold(Zl::ONE, |a, b| a.mul(b));
            let case = json!({"kind": "seq", "seq": s});
            let sum: Scalar = rs.iter().sum();
            let prod: Scalar = rs.iter().product();
            let sum_v: Scalar = rs.iter().copied().sum();
            let prod_v: Scalar = rs.iter().copied().product();
            // iterators with an inexact size hint
            let sum_f: Scalar = rs.iter().filter(|_| std::hint::black_box(true)).sum();
            let prod_f: Scalar = rs.iter().filter(|_| std::hint::black_box(true)).product();
            if canon_check(&sum_f, &msum).is_err() || canon_check(&prod_f, &mprod).is_err() {
                ctx.violation("sc.sum", "Sum / Product over a filtered iterator differs", json!({"kind": "seq", "len": s.len(), "seq": &s[..s.len().min(8)]}));
            }
            if canon_check(&sum, &msum).is_err() || canon_check(&sum_v, &msum).is_err() {
                ctx.violation("sc.sum", "Sum differs", json!({"kind": "seq", "len": s.len(), "seq": &s[..s.len().min(8)]}));
            }
            if canon_check(&prod_v, &mprod).is_err() {
                ctx.violation("sc.product", "Product (by value) differs", json!({"kind": "seq", "len": s.len(), "seq": &s[..s.len().min(8)]}));
            }
            if canon_check(&prod, &mprod).is_err() {
                ctx.violation("sc.product", "Product differs", case.clone());
            }
            let mut v = rs.clone();
            match guarded(|| Scalar::batch_invert(&mut v)) {
                Ok(allinv) => {
                    if canon_check(&allinv, &mprod.inv()).is_err() {
                        ctx.violation("sc.batch_invert", "returned value is not the inverse of the product", case.clone());
                    }
                    for (k, x) in v.iter().enumerate() {
                        if canon_check(x, &ms[k].inv()).is_err() {
                            ctx.violation("sc.batch_invert", &format!("element {} is not inverted", k), case.clone());
                        }
                    }
                }
                Err(e) => ctx.violation("sc.batch_invert", &format!("panic: {}", e), case.clone()),
            }
        });
    }
    // ---- unpacked kernels (hook H3) on their call-site domain
    {
        let red: Vec<U> = alpha::sc_reduced(if quick { 40 } else { 200 });
        let r_int = U::pow2(SC_LIMB_BITS as usize * SC_LIMBS);
        let rinv = Zl::new(&r_int).inv();
        let all256: Vec<U> = ints.iter().take(if quick { 40 } else { 120 }).cloned().collect();
        let borrows = std::sync::atomic::AtomicU64::new(0);
        let carries = std::sync::atomic::AtomicU64::new(0);
        red.par_iter().for_each(|a| {
            let ua = Usc::from_limbs(&limbs_of(a));
            for b in &red {
                ctx.eval(4);
                let ub = Usc::from_limbs(&limbs_of(b));
                let (ma, mb) = (Zl(*a), Zl(*b));
                if a.add(b) >= lm {
                    carries.fetch_add(1, Ordering::Relaxed);
                }
                if a < b {
                    borrows.fetch_add(1, Ordering::Relaxed);
                }
                let checks: [(&str, Result<Usc, String>, Zl); 4] = [
                    ("usc.add", guarded(|| Usc::add(&ua, &ub)), ma.add(&mb)),
                    ("usc.sub", guarded(|| Usc::sub(&ua, &ub)), ma.sub(&mb)),
                    ("usc.mul", guarded(|| Usc::mul(&ua, &ub)), ma.mul(&mb)),
                    ("usc.montgomery_mul", guarded(|| Usc::montgomery_mul(&ua, &ub)), ma.mul(&mb).mul(&rinv)),
                ];
                for (name, got, want) in checks {
                    let case = json!({"kind": "usc2", "op": name, "a": a.hex(), "b": b.hex()});
                    match got {
                        Ok(g) => {
                            let lb = g.limbs();
                            if value_of(&lb) != want.0 || lb.iter().any(|x| *x >> SC_LIMB_BITS != 0) || g.as_bytes() != want.to_bytes() {
                                ctx.violation(name, &format!("limbs {:?} want {}", lb, want.0.hex()), case);
                            }
                        }
                        Err(e) => ctx.violation(name, &format!("panic: {}", e), case),
                    }
                }
            }
            // unary kernels
            let ma = Zl(*a);
            let un: Vec<(&str, Result<Usc, String>, Zl)> = vec![
                ("usc.square", guarded(|| ua.square()), ma.mul(&ma)),
                ("usc.montgomery_square", guarded(|| ua.montgomery_square()), ma.mul(&ma).mul(&rinv)),
                ("usc.as_montgomery", guarded(|| ua.as_montgomery()), ma.mul(&Zl::new(&r_int))),
                ("usc.from_montgomery", guarded(|| ua.from_montgomery()), ma.mul(&rinv)),
            ];
            for (name, got, want) in un {
                ctx.eval(1);
                let case = json!({"kind": "usc1", "op": name, "a": a.hex()});
                match got {
                    Ok(g) => {
                        if value_of(&g.limbs()) != want.0 {
                            ctx.violation(name, &format!("limbs {:?} want {}", g.limbs(), want.0.hex()), case);
                        }
                    }
                    Err(e) => ctx.violation(name, &format!("panic: {}", e), case),
                }
            }
            if !a.is_zero() {
                ctx.eval(1);
                match guarded(|| ua.invert()) {
                    Ok(g) => {
                        if value_of(&g.limbs()) != ma.inv().0 {
                            ctx.violation("usc.invert", "wrong inverse", json!({"kind": "usc1", "op": "usc.invert", "a": a.hex()}));
                        }
                    }
                    Err(e) => ctx.violation("usc.invert", &format!("panic: {}", e), json!({"kind": "usc1", "op": "usc.invert", "a": a.hex()})),
                }
            }
        });
        ctx.count("kernel_add_pairs_needing_final_subtraction", carries.load(Ordering::Relaxed));
        ctx.count("kernel_sub_pairs_with_borrow", borrows.load(Ordering::Relaxed));
        // from_bytes / as_bytes / reduce composition on any 256-bit value
        for x in &all256 {
            ctx.eval(2);
            let u = Usc::from_bytes(&x.to_le32());
            if value_of(&u.limbs()) != *x || u.as_bytes() != x.to_le32() {
                ctx.violation("usc.from_bytes", "unpack/pack is not the identity", json!({"kind": "usc_bytes", "a": x.hex()}));
            }
            let (consts, _) = curve25519_dalek::verif::scalar_constants();
            let r = consts.iter().find(|(n, _)| *n == "R").unwrap().1;
            match guarded(|| Usc::mul_internal_then_reduce(&u, &r)) {
                Ok(g) => {
                    if value_of(&g.limbs()) != x.rem(&lm) {
                        ctx.violation("usc.montgomery_reduce", "reduce(x*R) != x mod l", json!({"kind": "usc_reduce", "a": x.hex()}));
                    }
                }
                Err(e) => ctx.violation("usc.montgomery_reduce", &format!("panic: {}", e), json!({"kind": "usc_reduce", "a": x.hex()})),
            }
        }
    }
    // ---- the value machine
    let pool_n = if quick { 10 } else { 14 };
    let pool = alpha::sc_reduced(pool_n + 2).into_iter().skip(1).take(pool_n).collect::<Vec<_>>();
    let inits = alpha::sc_reduced(if quick { 60 } else { 400 });
    let depth = if ctx.deep { 4 } else { 3 };
    let _ = quick;
    ctx.bound("machine_depth", json!(depth));
    ctx.bound("machine_pool", json!(pool.len()));
    ctx.bound("machine_inits", json!(inits.len()));
    let m = Machine { inits, pool, max_depth: depth, ctx: ctx as *const Ctx as usize };
    let o = crate::bfs::explore(&m, depth as usize, |s| s.bad.clone(), 8);
    crate::bfs::finish(ctx, "sc.machine", &o, depth as usize);
    ctx.sample_tag("machine", json!({"depth": depth, "note": "BFS over scalar values; each transition = one real operator call compared with Z/lZ"}));
}
