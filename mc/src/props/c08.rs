//! C08 — Ed25519 key derivation and signing are the deterministic RFC 8032 functions.

use crate::alpha;
use crate::ev::{guarded, Ctx};
use crate::model::ed;
use crate::model::eddsa;
use crate::model::nat::{hex, U};
use crate::model::zl::{l, Zl};
use crate::props::sigs::{self, model_accepts, real_verifiers, real_verifiers_sk};
use crate::real::{IdDigest, ScriptRng};
use ed25519_dalek::hazmat::{self, ExpandedSecretKey};
use ed25519_dalek::{Signature, SigningKey, VerifyingKey};
use rayon::prelude::*;
use serde_json::json;
use sha2::{Digest, Sha512};
use signature::{DigestSigner, Signer};
use stateright::{Model, Property};
use std::sync::atomic::Ordering;

struct World {
    seeds: Vec<[u8; 32]>,
    pubs: Vec<[u8; 32]>,
    msgs: Vec<Vec<u8>>,
    ctxs: Vec<Option<Vec<u8>>>, // None = pure
}

#[derive(Clone, Debug, PartialEq, Eq, Hash)]
struct St {
    depth: u8,
    key: usize,
    msg: usize,
    ctx: usize,
    sig_of: (usize, usize, usize), // which honest (key, msg, ctx) the signature was made for
    r_from: Option<(usize, usize, usize)>, // R replaced by the R of another honest signature
    s_mut: u8, // 0 = as is, 1 = S + l (non-canonical), 2 = S + 1
    bad: Option<String>,
}

#[derive(Clone, Debug, PartialEq, Eq)]
enum Act {
    Key(usize),
    Msg(usize),
    Ctx(usize),
    RFrom(usize, usize, usize),
    SMut(u8),
}

struct Machine {
    w: World,
    max_depth: u8,
    ctx: usize,
}
impl Machine {
    fn cx(&self) -> &Ctx {
        unsafe { &*(self.ctx as *const Ctx) }
    }
    fn honest_sig(&self, t: (usize, usize, usize)) -> [u8; 64] {
        eddsa::sign(&self.w.seeds[t.0], &self.w.msgs[t.1], self.w.ctxs[t.2].as_deref())
    }
    fn sig_bytes(&self, s: &St) -> [u8; 64] {
        let mut sig = self.honest_sig(s.sig_of);
        if let Some(t) = s.r_from {
            let o = self.honest_sig(t);
            sig[..32].copy_from_slice(&o[..32]);
        }
        let sv = U::from_le(&sig[32..]);
        let sv = match s.s_mut {
            1 => sv.add(&l()),
            2 => Zl(sv).add(&Zl::ONE).0,
            _ => sv,
        };
        sig[32..].copy_from_slice(&sv.to_le32());
        sig
    }
    fn check(&self, s: &St) -> Option<String> {
        let sig = self.sig_bytes(s);
        let key = &self.w.pubs[s.key];
        let msg = &self.w.msgs[s.msg];
        let c = self.w.ctxs[s.ctx].as_deref();
        let sig_is_ph = self.w.ctxs[s.sig_of.2].is_some();
        let _ = sig_is_ph;
        let mut outs = real_verifiers(key, msg, &sig, c);
        let sk = SigningKey::from_bytes(&self.w.seeds[s.key]);
        outs.extend(real_verifiers_sk(&sk, msg, &sig, c));
        for (name, strict, r) in outs {
            let want = model_accepts(key, msg, &sig, c, strict);
            match r {
                Err(e) => return Some(format!("{} panicked: {}", name, e)),
                Ok(g) => {
                    if g != want {
                        return Some(format!("{} returns accept={} but RFC 8032 says {}", name, g, want));
                    }
                    if g {
                        self.cx().count("accepting_verifications", 1);
                    } else {
                        self.cx().count("rejecting_verifications", 1);
                    }
                }
            }
        }
        None
    }
}

impl Model for Machine {
    type State = St;
    type Action = Act;
    fn init_states(&self) -> Vec<St> {
        let mut v = Vec::new();
        for k in 0..self.w.seeds.len() {
            for m in 0..self.w.msgs.len() {
                for c in 0..self.w.ctxs.len() {
                    let mut s = St { depth: 0, key: k, msg: m, ctx: c, sig_of: (k, m, c), r_from: None, s_mut: 0, bad: None };
                    s.bad = self.check(&s);
                    v.push(s);
                }
            }
        }
        v
    }
    fn actions(&self, s: &St, out: &mut Vec<Act>) {
        if s.bad.is_some() || s.depth >= self.max_depth {
            return;
        }
        for k in 0..self.w.seeds.len() {
            if k != s.key {
                out.push(Act::Key(k));
            }
        }
        for m in 0..self.w.msgs.len() {
            if m != s.msg {
                out.push(Act::Msg(m));
            }
        }
        for c in 0..self.w.ctxs.len() {
            if c != s.ctx {
                out.push(Act::Ctx(c));
            }
        }
        if s.r_from.is_none() {
            let (k, m, c) = s.sig_of;
            out.push(Act::RFrom((k + 1) % self.w.seeds.len(), m, c));
            out.push(Act::RFrom(k, (m + 1) % self.w.msgs.len(), c));
        }
        if s.s_mut == 0 {
            out.push(Act::SMut(1));
            out.push(Act::SMut(2));
        }
    }
    fn next_state(&self, s: &St, a: Act) -> Option<St> {
        crate::apply_force();
        self.cx().transitions.fetch_add(1, Ordering::Relaxed);
        let mut n = s.clone();
        n.depth += 1;
        match a {
            Act::Key(k) => n.key = k,
            Act::Msg(m) => n.msg = m,
            Act::Ctx(c) => n.ctx = c,
            Act::RFrom(k, m, c) => n.r_from = Some((k, m, c)),
            Act::SMut(x) => n.s_mut = x,
        }
        n.bad = self.check(&n).map(|e| format!("{:?}: {}", a, e));
        Some(n)
    }
    fn properties(&self) -> Vec<Property<Self>> {
        vec![Property::always("RFC 8032", |_, s: &St| s.bad.is_none())]
    }
}

pub fn run(ctx: &Ctx) {
    let quick = ctx.quick();
    let seeds = sigs::seeds(if quick { 6 } else { 16 });
    let lens: Vec<usize> = if quick { vec![0, 1, 32, 64, 111, 112, 128, 1023] } else { alpha::msg_lens() };
    let ctx_lens: Vec<usize> = vec![0, 1, 2, 254, 255];
    let long_ctx: Vec<usize> = vec![256, 257, 1000];
    ctx.bound("seeds", json!(seeds.len()));
    ctx.bound("message_lengths", json!(lens));
    ctx.bound("context_lengths", json!(ctx_lens));
    // ---- (1) determinism: public key and signature bytes equal the RFC functions
    seeds.par_iter().for_each(|seed| {
        let key = eddsa::keygen(seed);
        let case0 = json!({"kind": "keygen", "seed": hex(seed)});
        ctx.eval(1);
        let sk = match guarded(|| SigningKey::from_bytes(seed)) {
            Ok(sk) => sk,
            Err(e) => {
                ctx.violation("sig.from_bytes", &format!("panic: {}", e), case0);
                return;
            }
        };
        let vkb = sk.verifying_key().to_bytes();
        ctx.record(&format!("sig.public/{}", hex(seed)), &vkb);
        if vkb != key.public {
            ctx.violation("sig.public_key", &format!("got {} want {}", hex(&vkb), hex(&key.public)), case0.clone());
        }
        // other constructors of the same key
        {
            let mut rng = ScriptRng::new(seed);
            let g = SigningKey::generate(&mut rng);
            let kp = sk.to_keypair_bytes();
            let from_kp = SigningKey::from_keypair_bytes(&kp);
            let from_slice = SigningKey::try_from(&seed[..]);
            let from_arr: SigningKey = SigningKey::from(*seed);
            if g.to_bytes() != *seed
                || g.verifying_key().to_bytes() != key.public
                || kp[..32] != seed[..]
                || kp[32..] != key.public[..]
                || from_kp.map(|k| k.to_bytes()).ok() != Some(*seed)
                || from_slice.map(|k| k.verifying_key().to_bytes()).ok() != Some(key.public)
                || from_arr.verifying_key().to_bytes() != key.public
                || sk.to_bytes() != *seed
            {
                ctx.violation("sig.constructors", "generate / keypair bytes / try_from disagree", case0.clone());
            }
            // expanded key
            let esk = ExpandedSecretKey::from(seed);
            let h = eddsa::sha512(&[seed]);
            let esk2 = ExpandedSecretKey::from_bytes(&h);
            let esk3 = ExpandedSecretKey::from_slice(&h).unwrap();
            let a_red = key.a.rem(&l());
            for e in [&esk, &esk2, &esk3] {
                if crate::real::scalar_int(&e.scalar) != a_red || e.hash_prefix != key.prefix {
                    ctx.violation("sig.expanded_key", "scalar/prefix differ from SHA-512(seed) clamped and reduced", case0.clone());
                }
            }
            if VerifyingKey::from(&esk).to_bytes() != key.public {
                ctx.violation("sig.expanded_key", "VerifyingKey::from(&ExpandedSecretKey)", case0.clone());
            }
        }
        for (li, n) in lens.iter().enumerate() {
            let msg = alpha::msg_of_len(*n, li as u8);
            // pure
            ctx.eval(1);
            ctx.nontriv(1);
            let want = eddsa::sign(seed, &msg, None);
            let case = json!({"kind": "sign", "seed": hex(seed), "msg_len": n, "ctx": null});
            let r = guarded(|| {
                let s1 = sk.sign(&msg).to_bytes();
                let s2 = sk.try_sign(&msg).map(|s| s.to_bytes());
                let esk = ExpandedSecretKey::from(seed);
                let s3 = hazmat::raw_sign::<Sha512>(&esk, &msg, &sk.verifying_key()).to_bytes();
                (s1, s2, s3)
            });
            match r {
                Ok((s1, s2, s3)) => {
                    ctx.record(&format!("sig.sign/{}/{}", hex(seed), n), &s1);
                    if s1 != want || s2.ok() != Some(want) || s3 != want {
                        ctx.violation("sig.sign", &format!("got {} want {}", hex(&s1), hex(&want)), case);
                    }
                }
                Err(e) => ctx.violation("sig.sign", &format!("panic: {}", e), case),
            }
            // prehashed with every context length
            for cl in ctx_lens.iter().chain(long_ctx.iter()) {
                ctx.eval(1);
                let c = alpha::msg_of_len(*cl, 0x40);
                let case = json!({"kind": "sign", "seed": hex(seed), "msg_len": n, "ctx_len": cl});
                let r = guarded(|| {
                    let dg = || Sha512::new().chain_update(&msg);
                    let s1 = sk.sign_prehashed(dg(), Some(&c)).map(|s| s.to_bytes()).ok();
                    let s2 = sk.with_context(&c).ok().map(|cx| cx.try_sign_digest(dg()).map(|s: Signature| s.to_bytes()).ok());
                    let esk = ExpandedSecretKey::from(seed);
                    let s3 = hazmat::raw_sign_prehashed::<Sha512, Sha512>(&esk, dg(), &sk.verifying_key(), Some(&c)).map(|s| s.to_bytes()).ok();
                    let s4 = if c.is_empty() {
                        Some((sk.sign_prehashed(dg(), None).map(|s| s.to_bytes()).ok(), DigestSigner::<Sha512, Signature>::try_sign_digest(&sk, dg()).map(|s| s.to_bytes()).ok()))
                    } else {
                        None
                    };
                    (s1, s2, s3, s4)
                });
                match r {
                    Ok((s1, s2, s3, s4)) => {
                        if *cl > 255 {
                            if s1.is_some() || s2.is_some() || s3.is_some() {
                                ctx.violation("sig.sign_prehashed.long_context", "a context longer than 255 bytes was not refused", case);
                            } else {
                                ctx.count("long_contexts_refused_by_signing", 1);
                            }
                        } else {
                            let want = eddsa::sign(seed, &msg, Some(&c));
                            ctx.record(&format!("sig.sign_prehashed/{}/{}/{}", hex(seed), n, cl), &s1.unwrap_or([0u8; 64]));
                            if s1 != Some(want) || s2 != Some(Some(want)) || s3 != Some(want) {
                                ctx.violation("sig.sign_prehashed", &format!("want {}", hex(&want)), case.clone());
                            }
                            if let Some((a, b)) = s4 {
                                if a != Some(want) || b != Some(want) {
                                    ctx.violation("sig.sign_prehashed.default_context", "None context / DigestSigner differ from the empty context", case);
                                }
                            }
                        }
                    }
                    Err(e) => ctx.violation("sig.sign_prehashed", &format!("panic: {}", e), case),
                }
            }
        }
    });
    // hazmat with the identity digest: the nonce r and challenge k are placed exactly by the
    // choice of hash_prefix / message (CtxDigest = first 64 bytes fed in).
    {
        let a = Zl::from_u64(5);
        let apt = ed::mul_base(&a.0);
        let vk = VerifyingKey::from_bytes(&apt.compress()).unwrap();
        let lm = l();
        for r_int in [U::ZERO, U::ONE, lm.sub(&U::ONE), lm, U::pow2(255), U::pow2(256).sub(&U::ONE)] {
            ctx.eval(1);
            let prefix = r_int.to_le32();
            // message = 32 zero bytes: digest input prefix||msg = 64 bytes -> r = prefix (mod l)
            let msg = [0u8; 32];
            let esk = ExpandedSecretKey { scalar: crate::real::scalar(&a.0), hash_prefix: prefix };
            let case = json!({"kind": "raw_sign_identity_digest", "r": r_int.hex()});
            match guarded(|| hazmat::raw_sign::<IdDigest>(&esk, &msg, &vk).to_bytes()) {
                Ok(sig) => {
                    let r = Zl::new(&r_int);
                    let rr = ed::mul_base(&r.0).compress();
                    // k = first 64 bytes of R || A || M = R || A
                    let mut kb = [0u8; 64];
                    kb[..32].copy_from_slice(&rr);
                    kb[32..].copy_from_slice(&apt.compress());
                    let k = Zl::from_le(&kb);
                    let s = r.add(&k.mul(&a));
                    if sig[..32] != rr || sig[32..] != s.to_bytes() {
                        ctx.violation("sig.raw_sign.identity_digest", "signature differs from (rB, r + k a) with scripted hash values", case);
                    } else if hazmat::raw_verify::<IdDigest>(&vk, &msg, &Signature::from_bytes(&sig)).is_err() {
                        ctx.violation("sig.raw_verify.identity_digest", "own signature rejected", case);
                    }
                }
                Err(e) => ctx.violation("sig.raw_sign.identity_digest", &format!("panic: {}", e), case),
            }
        }
    }
    // ---- (2) keypair import: all (secret, public) pairs
    {
        let pubs: Vec<[u8; 32]> = seeds.iter().map(|s| eddsa::keygen(s).public).collect();
        for (i, s) in seeds.iter().enumerate() {
            for (j, p) in pubs.iter().enumerate() {
                ctx.eval(1);
                let mut kp = [0u8; 64];
                kp[..32].copy_from_slice(s);
                kp[32..].copy_from_slice(p);
                // the same import through the PKCS#8 key-pair structure (its own validation code)
                {
                    use ed25519_dalek::pkcs8::{KeypairBytes, PublicKeyBytes};
                    let r = guarded(|| {
                        let kb = KeypairBytes { secret_key: *s, public_key: Some(PublicKeyBytes(*p)) };
                        let by_ref = SigningKey::try_from(&kb).map(|k| k.to_keypair_bytes()).ok();
                        let by_val = SigningKey::try_from(kb).map(|k| k.to_keypair_bytes()).ok();
                        let no_pub = SigningKey::try_from(&KeypairBytes { secret_key: *s, public_key: None }).map(|k| k.to_keypair_bytes()).ok();
                        (by_ref, by_val, no_pub)
                    });
                    let mut own = [0u8; 64];
                    own[..32].copy_from_slice(s);
                    own[32..].copy_from_slice(&pubs[i]);
                    let want = if i == j { Some(own) } else { None };
                    match r {
                        Ok((a, b, c)) => {
                            if a != want || b != want || c != Some(own) {
                                ctx.violation("sig.pkcs8.KeypairBytes", &format!("import of secret {} with public {}: accepted={}/{} (without public half: {})", i, j, a.is_some(), b.is_some(), c.is_some()), json!({"kind": "keypair_pkcs8", "bytes": hex(&kp)}));
                            }
                        }
                        Err(e) => ctx.violation("sig.pkcs8.KeypairBytes", &format!("panic: {}", e), json!({"kind": "keypair_pkcs8", "bytes": hex(&kp)})),
                    }
                    if i == j {
                        let sk = SigningKey::from_bytes(s);
                        let kb = KeypairBytes::from(&sk);
                        let pb = PublicKeyBytes::from(&sk.verifying_key());
                        if kb.secret_key != *s || kb.public_key.map(|x| x.0) != Some(pubs[i]) || pb.0 != pubs[i] || VerifyingKey::try_from(&pb).map(|k| k.to_bytes()).ok() != Some(pubs[i]) {
                            ctx.violation("sig.pkcs8.KeypairBytes", "export to KeypairBytes / PublicKeyBytes differs from (seed, public key)", json!({"kind": "keypair_pkcs8", "bytes": hex(&kp)}));
                        }
                    }
                }
                let r = guarded(|| SigningKey::from_keypair_bytes(&kp).is_ok());
                match r {
                    Ok(ok) => {
                        if ok != (i == j) {
                            ctx.violation("sig.from_keypair_bytes", &format!("accepts={} for secret {} with public {}", ok, i, j), json!({"kind": "keypair", "bytes": hex(&kp)}));
                        }
                    }
                    Err(e) => ctx.violation("sig.from_keypair_bytes", &format!("panic: {}", e), json!({"kind": "keypair", "bytes": hex(&kp)})),
                }
            }
            // public halves that are undecodable or other curve points
            for y in [2u8, 3, 4, 5, 6, 7, 0, 1] {
                ctx.eval(1);
                let mut kp = [0u8; 64];
                kp[..32].copy_from_slice(s);
                kp[32] = y;
                if let Ok(true) = guarded(|| SigningKey::from_keypair_bytes(&kp).is_ok()) {
                    ctx.violation("sig.from_keypair_bytes", "accepts a foreign public half", json!({"kind": "keypair", "bytes": hex(&kp)}));
                }
                // the same halves (half of them are not encodings of any curve point) through the PKCS#8 structure
                // and through a PKCS#8 v2 document
                {
                    use ed25519_dalek::pkcs8::{DecodePrivateKey, EncodePrivateKey, KeypairBytes, PublicKeyBytes};
                    let mut ph = [0u8; 32];
                    ph.copy_from_slice(&kp[32..]);
                    let r = guarded(|| {
                        let kb = KeypairBytes { secret_key: *s, public_key: Some(PublicKeyBytes(ph)) };
                        let direct = SigningKey::try_from(&kb).is_ok();
                        let via_der = kb.to_pkcs8_der().ok().map(|d| SigningKey::from_pkcs8_der(d.as_bytes()).is_ok());
                        (direct, via_der)
                    });
                    match r {
                        Ok((direct, via_der)) => {
                            if direct || via_der == Some(true) {
                                ctx.violation("sig.pkcs8.KeypairBytes", &format!("accepts a foreign public half (direct: {}, through a DER document: {:?})", direct, via_der), json!({"kind": "keypair_pkcs8", "bytes": hex(&kp)}));
                            }
                        }
                        Err(e) => ctx.violation("sig.pkcs8.KeypairBytes", &format!("panic: {}", e), json!({"kind": "keypair_pkcs8", "bytes": hex(&kp)})),
                    }
                }
            }
        }
    }
    // ---- (3) the (key, message, context, signature) machine
    let n_k = if quick { 3 } else { 4 };
    let w = World {
        seeds: seeds.iter().cloned().take(n_k).collect(),
        pubs: seeds.iter().take(n_k).map(|s| eddsa::keygen(s).public).collect(),
        msgs: (if quick { vec![0usize, 1, 64] } else { vec![0, 1, 64, 113] }).iter().enumerate().map(|(i, n)| alpha::msg_of_len(*n, i as u8)).collect(),
        ctxs: {
            let mut v: Vec<Option<Vec<u8>>> = vec![None, Some(vec![]), Some(vec![1]), Some(alpha::msg_of_len(255, 9))];
            if !quick {
                v.push(Some(vec![2]));
            }
            v
        },
    };
    let depth = if ctx.deep { 3 } else { 2 };
    ctx.bound("machine_depth", json!(depth));
    ctx.bound("machine_keys_msgs_ctxs", json!([w.seeds.len(), w.msgs.len(), w.ctxs.len()]));
    let m = Machine { w, max_depth: depth, ctx: ctx as *const Ctx as usize };
    let o = crate::bfs::explore(&m, depth as usize, |s| s.bad.clone(), 8);
    crate::bfs::finish(ctx, "sig.machine", &o, depth as usize);
    ctx.sample_tag("machine", json!({"depth": depth, "note": "states = (key, message, context, signature provenance + R/S mutations); every state is verified by all real verifiers and compared with RFC 8032 acceptance"}));
}
