//! C13 — batch verification agrees with single verification and is deterministic.

use crate::alpha;
use crate::ev::{guarded, Ctx};
use crate::model::eddsa;
use crate::model::nat::{hex, U};
use crate::model::zl::{l, Zl};
use crate::props::sigs::seeds;
use ed25519_dalek::{verify_batch, Signature, VerifyingKey};
use rayon::prelude::*;
use serde_json::json;
use signature::Verifier;
use stateright::{Model, Property};
use std::sync::atomic::Ordering;

/// An entry of a batch, described relative to the honest material.
#[derive(Clone, Copy, Debug, PartialEq, Eq, Hash)]
pub struct Entry {
    key: u8,
    msg: u8,
    corrupt: u8, // 0 honest, 1 key->other honest, 2 message bit, 3 R->other honest R, 4 R undecodable, 5 S+l, 6 S->other honest S, 8 key holder's R = identity (valid for the plain rule),
                 // 7 R undecodable with S = H(R,A,M)*a: the entry whose remaining terms cancel if its R term is dropped
}

struct World {
    seeds: Vec<[u8; 32]>,
    pubs: Vec<[u8; 32]>,
    msgs: Vec<Vec<u8>>,
    sigs: Vec<Vec<[u8; 64]>>, // [key][msg]
}

impl World {
    fn new(nk: usize, nm: usize) -> World {
        let sd = seeds(nk);
        let msgs: Vec<Vec<u8>> = (0..nm).map(|i| alpha::msg_of_len([0usize, 5, 64, 130][i % 4], i as u8)).collect();
        let pubs: Vec<[u8; 32]> = sd.iter().map(|s| eddsa::keygen(s).public).collect();
        let sigs = sd.iter().map(|s| msgs.iter().map(|m| eddsa::sign(s, m, None)).collect()).collect();
        World { seeds: sd, pubs, msgs, sigs }
    }
    /// (key bytes, message, signature bytes, individually valid per the model)
    fn material(&self, e: &Entry) -> ([u8; 32], Vec<u8>, [u8; 64]) {
        let (k, m) = (e.key as usize, e.msg as usize);
        let mut key = self.pubs[k];
        let mut msg = self.msgs[m].clone();
        let mut sig = self.sigs[k][m];
        let nk = self.seeds.len();
        match e.corrupt {
            1 => key = self.pubs[(k + 1) % nk],
            2 => {
                if msg.is_empty() {
                    msg.push(1);
                } else {
                    msg[0] ^= 1;
                }
            }
            3 => {
                let o = self.sigs[(k + 1) % nk][m];
                sig[..32].copy_from_slice(&o[..32]);
            }
            4 => {
                // y = 2 is not on the curve
                sig[..32].copy_from_slice(&{
                    let mut b = [0u8; 32];
                    b[0] = 2;
                    b
                });
            }
            5 => {
                let s = U::from_le(&sig[32..]).add(&l());
                sig[32..].copy_from_slice(&s.to_le32());
            }
            6 => {
                let o = self.sigs[k][(m + 1) % self.msgs.len()];
                sig[32..].copy_from_slice(&o[32..]);
            }
            7 => {
                let mut rb = [0u8; 32];
                rb[0] = 2;
                let key_m = eddsa::keygen(&self.seeds[k]);
                let h = Zl::from_le(&eddsa::sha512(&[&rb, &key_m.public, &msg]));
                let sv = h.mul(&Zl::new(&key_m.a));
                sig[..32].copy_from_slice(&rb);
                sig[32..].copy_from_slice(&sv.0.to_le32());
            }
            8 => {
                // the key holder's signature with R = identity (nonce 0): small-order R, individually *valid* for the
                // plain rule the batch equation implements (a strict verifier would refuse it)
                let mut rb = [0u8; 32];
                rb[0] = 1;
                let key_m = eddsa::keygen(&self.seeds[k]);
                let h = Zl::from_le(&eddsa::sha512(&[&rb, &key_m.public, &msg]));
                let sv = h.mul(&Zl::new(&key_m.a));
                sig[..32].copy_from_slice(&rb);
                sig[32..].copy_from_slice(&sv.0.to_le32());
            }
            _ => {}
        }
        (key, msg, sig)
    }
}

fn run_batch(w: &World, batch: &[Entry], trunc: (usize, usize, usize)) -> Result<(), String> {
    let mats: Vec<([u8; 32], Vec<u8>, [u8; 64])> = batch.iter().map(|e| w.material(e)).collect();
    let keys: Vec<VerifyingKey> = mats.iter().map(|m| VerifyingKey::from_bytes(&m.0).expect("honest keys decode")).collect();
    let msgs: Vec<&[u8]> = mats.iter().map(|m| &m.1[..]).collect();
    let sigs: Vec<Signature> = mats.iter().map(|m| Signature::from_bytes(&m.2)).collect();
    let (a, b, c) = trunc;
    // equal slice lengths select the sub-batch of the first `a` entries
    let full = a == b && b == c;
    let all_valid = mats.iter().take(a).all(|m| eddsa::verify(&m.0, &m.1, &m.2, None, false, cfg!(feature = "legacy")).is_ok());
    // single verification by the real code must agree with the model on every entry
    for (i, m) in mats.iter().enumerate() {
        let single = keys[i].verify(&m.1, &sigs[i]).is_ok();
        let want = eddsa::verify(&m.0, &m.1, &m.2, None, false, cfg!(feature = "legacy")).is_ok();
        if single != want {
            return Err(format!("single verification of entry {} gives {} but the model says {}", i, single, want));
        }
    }
    let call = || verify_batch(&msgs[..a], &sigs[..b], &keys[..c]).is_ok();
    let r1 = guarded(call).map_err(|e| format!("panic: {}", e))?;
    let r2 = guarded(call).map_err(|e| format!("panic on repeated call: {}", e))?;
    if r1 != r2 {
        return Err("repeated call gives a different result".into());
    }
    let want = if full { all_valid } else { false };
    // S + l is rejected in non-legacy builds at parsing; in legacy builds S + l < 2^253 may
    // pass the relaxed check, and then the batch equation holds as well (B has order l), which
    // is consistent with single verification -- `all_valid` above is computed with the same flag.
    if r1 != want {
        return Err(format!("verify_batch is_ok = {} but {}", r1, if full { format!("all entries individually valid = {}", all_valid) } else { "slice lengths differ".to_string() }));
    }
    Ok(())
}

#[derive(Clone, Debug, PartialEq, Eq, Hash)]
struct St {
    batch: Vec<Entry>,
    bad: Option<String>,
}

#[derive(Clone, Debug, PartialEq, Eq)]
enum Act {
    Append(Entry),
    Duplicate(usize),
    Swap(usize, usize),
}

struct Machine {
    w: World,
    menu: Vec<Entry>,
    max_len: usize,
    ctx: usize,
}
impl Machine {
    fn cx(&self) -> &Ctx {
        unsafe { &*(self.ctx as *const Ctx) }
    }
}

impl Model for Machine {
    type State = St;
    type Action = Act;
    fn init_states(&self) -> Vec<St> {
        vec![St { batch: vec![], bad: run_batch(&self.w, &[], (0, 0, 0)).err() }]
    }
    fn actions(&self, s: &St, out: &mut Vec<Act>) {
        if s.bad.is_some() || s.batch.len() >= self.max_len {
            if s.bad.is_none() && s.batch.len() == self.max_len {
                // orderings at full length
                for i in 0..s.batch.len() {
                    for j in i + 1..s.batch.len() {
                        if s.batch[i] != s.batch[j] {
                            out.push(Act::Swap(i, j));
                        }
                    }
                }
            }
            return;
        }
        for e in &self.menu {
            out.push(Act::Append(*e));
        }
        for i in 0..s.batch.len() {
            out.push(Act::Duplicate(i));
        }
    }
    fn next_state(&self, s: &St, a: Act) -> Option<St> {
        crate::apply_force();
        let cx = self.cx();
        cx.transitions.fetch_add(1, Ordering::Relaxed);
        let mut b = s.batch.clone();
        match &a {
            Act::Append(e) => b.push(*e),
            Act::Duplicate(i) => b.push(b[*i]),
            Act::Swap(i, j) => b.swap(*i, *j),
        }
        let n = b.len();
        let mut bad = run_batch(&self.w, &b, (n, n, n)).err();
        if b.iter().all(|e| e.corrupt == 0) {
            cx.count("all_honest_batches", 1);
        } else {
            cx.count("batches_with_a_corrupted_entry", 1);
        }
        if bad.is_none() && n <= 2 {
            // every slice-length triple
            for x in 0..=n {
                for y in 0..=n {
                    for z in 0..=n {
                        if (x, y, z) != (n, n, n) {
                            if let Err(e) = run_batch(&self.w, &b, (x, y, z)) {
                                bad = Some(format!("lengths ({},{},{}): {}", x, y, z, e));
                            }
                            cx.count("mismatched_length_calls", ((x != y) || (y != z)) as u64);
                        }
                    }
                }
            }
        }
        Some(St { batch: b, bad: bad.map(|e| format!("{:?}: {}", a, e)) })
    }
    fn properties(&self) -> Vec<Property<Self>> {
        vec![Property::always("batch = conjunction of singles", |_, s: &St| s.bad.is_none())]
    }
}

pub fn run(ctx: &Ctx) {
    let quick = ctx.quick();
    let w = World::new(3, 3);
    // menu of entries
    let mut menu = Vec::new();
    for (k, m) in [(0u8, 0u8), (1, 1), (2, 2)] {
        for c in 0..8u8 {
            if quick && (k, m) != (0, 0) && c > 0 && c != 5 {
                continue;
            }
            menu.push(Entry { key: k, msg: m, corrupt: c });
        }
        if (k, m) == (0, 0) {
            menu.push(Entry { key: k, msg: m, corrupt: 8 });
        }
    }
    let max_len = if quick { 2 } else if ctx.deep { 4 } else { 3 };
    ctx.bound("batch_machine_max_len", json!(max_len));
    ctx.bound("entry_menu", json!(menu.len()));
    let m = Machine { w: World::new(3, 3), menu, max_len, ctx: ctx as *const Ctx as usize };
    let o = crate::bfs::explore(&m, max_len + 1, |s| s.bad.clone(), 8);
    crate::bfs::finish(ctx, "batch.machine", &o, max_len + 1);
    // ---- large batches around the Straus/Pippenger switch (2n+1 >= 190  <=>  n >= 95)
    let sizes: Vec<usize> = if quick { vec![94, 95, 250, 400] } else { vec![64, 94, 95, 96, 249, 250, 251, 399, 400, 401, 600] };
    ctx.bound("large_batch_sizes", json!(sizes));
    let jobs: Vec<(usize, Option<(usize, u8)>)> = {
        let mut v = Vec::new();
        for &n in &sizes {
            v.push((n, None));
            for pos in [0usize, n / 2, n - 1] {
                for c in if quick { vec![1u8, 4, 5, 7] } else { vec![1u8, 2, 3, 4, 5, 6, 7] } {
                    v.push((n, Some((pos, c))));
                }
            }
        }
        v
    };
    jobs.par_iter().for_each(|(n, cor)| {
        ctx.eval(1);
        let batch: Vec<Entry> = (0..*n)
            .map(|i| Entry { key: (i % 3) as u8, msg: ((i / 3) % 3) as u8, corrupt: match cor { Some((p, c)) if *p == i => *c, _ => 0 } })
            .collect();
        if let Err(e) = run_batch(&w, &batch, (*n, *n, *n)) {
            ctx.violation("batch.large", &e, json!({"kind": "batch_large", "n": n, "corrupt": cor.map(|(p, c)| vec![p as u64, c as u64])}));
        }
    });
    correlated_alterations(ctx, &w);
    ctx.sample_tag("machine", json!({"max_len": max_len, "note": "BFS over batches built by append/duplicate/swap from honest or singly corrupted entries; each state: verify_batch (twice) vs conjunction of model verifications, plus all slice-length triples for short batches"}));
    let _ = hex(&[0u8]);
}

struct ZeroRng;
impl rand_core::RngCore for ZeroRng {
    fn next_u32(&mut self) -> u32 {
        0
    }
    fn next_u64(&mut self) -> u64 {
        0
    }
    fn fill_bytes(&mut self, _dest: &mut [u8]) {}
    fn try_fill_bytes(&mut self, _dest: &mut [u8]) -> Result<(), rand_core::Error> {
        Ok(())
    }
}
impl rand_core::CryptoRng for ZeroRng {}

/// The 128-bit coefficients a transcript-derived RNG yields when the transcript absorbs the
/// per-entry challenge hashes and (optionally) the S halves -- the documented construction is
/// `with_s = true`.  `merlin` is an external dependency, not code under test.
fn coefficients(mats: &[([u8; 32], Vec<u8>, [u8; 64])], with_s: bool) -> Vec<U> {
    use rand_core::RngCore;
    let mut t = merlin::Transcript::new(b"ed25519 batch verification");
    for (key, msg, sig) in mats {
        let h = eddsa::sha512(&[&sig[..32], key, msg]);
        t.append_message(b"hram", &h);
    }
    if with_s {
        for (_, _, sig) in mats {
            t.append_message(b"sig.s", &sig[32..]);
        }
    }
    let mut rng = t.build_rng().finalize(&mut ZeroRng);
    mats.iter()
        .map(|_| {
            let mut b = [0u8; 16];
            rng.fill_bytes(&mut b);
            U::from_le(&b)
        })
        .collect()
}

/// Adversarial batches: two entries whose S halves are altered in a correlated way that would
/// cancel in the batch equation *if* the random coefficients did not depend on everything the
/// documentation says they depend on.  Each altered entry is individually invalid, so the
/// batch must be rejected.
fn correlated_alterations(ctx: &Ctx, w: &World) {
    use crate::model::zl::Zl;
    for n in 2..=4usize {
        for i in 0..n {
            for j in 0..n {
                if i == j {
                    continue;
                }
                // hypotheses about how the coefficients could be (wrongly) formed: hashed without the S halves, hashed
                // as documented, or all equal (sampled once and repeated)
                for hyp in 0..3u8 {
                    let with_s = hyp == 1;
                    ctx.eval(1);
                    let batch: Vec<Entry> = (0..n).map(|k| Entry { key: (k % 3) as u8, msg: ((k + 1) % 3) as u8, corrupt: 0 }).collect();
                    let mut mats: Vec<([u8; 32], Vec<u8>, [u8; 64])> = batch.iter().map(|e| w.material(e)).collect();
                    // coefficients under the hypothesis (hashes of R, A, M are unchanged by altering S)
                    let z: Vec<U> = if hyp == 2 { vec![U::ONE; n] } else { coefficients(&mats, with_s) };
                    let si = Zl(U::from_le(&mats[i].2[32..])).add(&Zl::new(&z[j]));
                    let sj = Zl(U::from_le(&mats[j].2[32..])).sub(&Zl::new(&z[i]));
                    mats[i].2[32..].copy_from_slice(&si.to_bytes());
                    mats[j].2[32..].copy_from_slice(&sj.to_bytes());
                    let keys: Vec<VerifyingKey> = mats.iter().map(|m| VerifyingKey::from_bytes(&m.0).unwrap()).collect();
                    let msgs: Vec<&[u8]> = mats.iter().map(|m| &m.1[..]).collect();
                    let sigs: Vec<Signature> = mats.iter().map(|m| Signature::from_bytes(&m.2)).collect();
                    let singles: Vec<bool> = (0..n).map(|k| keys[k].verify(msgs[k], &sigs[k]).is_ok()).collect();
                    let case = json!({"kind": "batch_correlated_s", "n": n, "i": i, "j": j, "coefficients_hash_s": with_s, "coefficients_all_equal": hyp == 2});
                    match guarded(|| verify_batch(&msgs, &sigs, &keys).is_ok()) {
                        Ok(ok) => {
                            if ok != singles.iter().all(|x| *x) {
                                ctx.violation(
                                    "batch.correlated_alteration",
                                    &format!("verify_batch is_ok = {} although entries {} and {} are individually invalid (S halves altered by multiples of the other entry's coefficient{})", ok, i, j, match hyp { 0 => ", coefficients computed without the S halves", 2 => ": +1 / -1, which cancels if all coefficients are equal", _ => "" }),
                                    case,
                                );
                            }
                        }
                        Err(e) => ctx.violation("batch.correlated_alteration", &format!("panic: {}", e), case),
                    }
                }
            }
        }
    }
}

/// C15: verify_batch never panics on the corruption space, mismatched lengths, adversarial
/// keys, and reports malformed input as Err.
pub fn panic_sweep(ctx: &Ctx, quick: bool) {
    let w = World::new(3, 3);
    let n = if quick { 3 } else { 5 };
    // every corruption at every position of a short batch
    for len in 1..=n {
        for pos in 0..len {
            for c in 0..8u8 {
                ctx.eval(1);
                let batch: Vec<Entry> = (0..len).map(|i| Entry { key: (i % 3) as u8, msg: (i % 3) as u8, corrupt: if i == pos { c } else { 0 } }).collect();
                if let Err(e) = run_batch(&w, &batch, (len, len, len)) {
                    ctx.violation("batch.verify_batch", &e, json!({"kind": "batch_short", "len": len, "pos": pos, "corrupt": c}));
                }
            }
        }
    }
    // every slice-length triple up to 3 over honest material: mismatches must be Err, never a panic
    {
        let batch: Vec<Entry> = (0..3).map(|i| Entry { key: i as u8, msg: i as u8, corrupt: 0 }).collect();
        for a in 0..=3usize {
            for b in 0..=3usize {
                for c in 0..=3usize {
                    ctx.eval(1);
                    if let Err(e) = run_batch(&w, &batch, (a, b, c)) {
                        ctx.violation("batch.verify_batch.lengths", &e, json!({"kind": "batch_lengths", "messages": a, "signatures": b, "keys": c}));
                    }
                }
            }
        }
    }
    // sizes on both sides of the Straus/Pippenger switch and of Pippenger's window choices (2n+1 terms: w = 6 below
    // 500, 7 below 800, 8 from 800), honest and with one corrupted entry
    {
        let sizes: Vec<usize> = if quick { vec![95, 250, 400] } else { vec![94, 95, 96, 249, 250, 251, 399, 400, 401, 640] };
        ctx.bound("panic_sweep_large_sizes", json!(sizes));
        let mut jobs: Vec<(usize, Option<(usize, u8)>)> = Vec::new();
        for &n in &sizes {
            jobs.push((n, None));
            jobs.push((n, Some((n - 1, 1))));
            jobs.push((n, Some((0, 5))));
            jobs.push((n, Some((n / 2, 7))));
        }
        jobs.par_iter().for_each(|(n, cor)| {
            ctx.eval(1);
            let batch: Vec<Entry> = (0..*n)
                .map(|i| Entry { key: (i % 3) as u8, msg: ((i / 3) % 3) as u8, corrupt: match cor { Some((p, c)) if *p == i => *c, _ => 0 } })
                .collect();
            if let Err(e) = run_batch(&w, &batch, (*n, *n, *n)) {
                ctx.violation("batch.verify_batch.large", &e, json!({"kind": "batch_large", "n": n, "corrupt": cor.map(|(p, c)| vec![p as u64, c as u64])}));
            }
        });
    }
    // adversarial (small-order / mixed-order) keys and R: only "no panic" is required
    let t = crate::model::ed::torsion();
    for j in 0..8 {
        for k in 0..8 {
            ctx.eval(1);
            let key = VerifyingKey::from_bytes(&t[j].compress()).expect("torsion points decode");
            let mut sig = [0u8; 64];
            sig[..32].copy_from_slice(&t[k].compress());
            let sg = Signature::from_bytes(&sig);
            let msgs: Vec<&[u8]> = vec![b"x"];
            if let Err(e) = guarded(|| verify_batch(&msgs, &[sg], &[key]).is_ok()) {
                ctx.violation("batch.verify_batch", &format!("panic: {}", e), json!({"kind": "batch_torsion", "key": j, "r": k}));
            }
        }
    }
}
