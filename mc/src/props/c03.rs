//! C03 — Edwards points are always on the curve and obey the group law.
//!
//! State = the *real internal representation* (raw X,Y,Z,T limbs) reached by an operation
//! history, in lock-step with the affine model point and its (a, j) decomposition a*B + T_j.

use crate::alpha;
use crate::ev::{guarded, Ctx};
use crate::model::ed::{self, Pt};
use crate::model::fp;
use crate::model::nat::{hex, U};
use crate::model::zl::{l, Zl};
use crate::props::c01::{spec, Spec};
use crate::real;
use curve25519_dalek::edwards::{CompressedEdwardsY, EdwardsPoint};
use curve25519_dalek::traits::{Identity, IsIdentity};
use curve25519_dalek::verif::{edwards_coords, edwards_from_coords, Fe};
use rayon::prelude::*;
use serde_json::json;
use stateright::{Model, Property};
use std::sync::atomic::Ordering;
use subtle::ConstantTimeEq;

pub type Coords = [Vec<u64>; 4];

pub fn coords_of(p: &EdwardsPoint) -> Coords {
    let c = edwards_coords(p);
    [c[0].limbs(), c[1].limbs(), c[2].limbs(), c[3].limbs()]
}
pub fn point_of(c: &Coords) -> EdwardsPoint {
    edwards_from_coords(&[
        Fe::from_limbs(&c[0]),
        Fe::from_limbs(&c[1]),
        Fe::from_limbs(&c[2]),
        Fe::from_limbs(&c[3]),
    ])
}

/// A pool point with everything the model knows about it.
#[derive(Clone, Debug)]
pub struct Known {
    pub name: String,
    pub pt: Pt,
    pub aj: Option<(U, u8)>,
    pub real: EdwardsPoint,
}

/// Torsion component j of a model point P = Q + T_j (Q torsion-free), from [l]P = T_{5j mod 8}.
pub fn torsion_index(p: &Pt) -> u8 {
    let lp = p.mul(&l());
    let idx = ed::torsion().iter().position(|t| *t == lp).expect("[l]P must be an 8-torsion point") as u8;
    (5 * idx) % 8
}

/// Is [8]P the identity (projective, no inversion)?
pub fn small_order_fast(p: &Pt) -> bool {
    let mut q = ed::Proj::from_affine(p);
    for _ in 0..3 {
        q = q.add(&q);
    }
    q.x.is_zero() && q.y == q.z
}

/// a*B + T_j for the standard multipliers.
pub fn pool(n_a: usize, all_torsion: bool) -> Vec<Known> {
    let lm = l();
    let mults: Vec<(String, U)> = vec![
        ("1".into(), U::ONE),
        ("0".into(), U::ZERO),
        ("2".into(), U::from_u64(2)),
        ("l-1".into(), lm.sub(&U::ONE)),
        ("3".into(), U::from_u64(3)),
        ("(l-1)/2".into(), lm.sub(&U::ONE).shr(1)),
        ("(l+1)/2".into(), lm.add(&U::ONE).shr(1)),
        ("5".into(), U::from_u64(5)),
        ("8".into(), U::from_u64(8)),
        ("2^252".into(), U::pow2(252)),
    ];
    let mut v = Vec::new();
    for (name, a) in mults.into_iter().take(n_a) {
        let js: Vec<u8> = if all_torsion { (0..8).collect() } else { vec![0, 1, 4] };
        for j in js {
            let pt = ed::from_aj(&a, j);
            v.push(Known { name: format!("{}*B+T{}", name, j), pt, aj: Some((a, j)), real: real::point(&pt) });
        }
    }
    v
}

/// The oracle on one reached real point.
pub fn check_point(sp: &Spec, p: &EdwardsPoint, m: &Pt, aj: &Option<(U, u8)>, deep: bool) -> Result<(), String> {
    check_point_t(sp, p, m, aj, None, deep)
}

/// `tor`: the torsion component if the caller tracks it (exact), else derived by the model.
pub fn check_point_t(sp: &Spec, p: &EdwardsPoint, m: &Pt, aj: &Option<(U, u8)>, tor: Option<u8>, deep: bool) -> Result<(), String> {
    let c = coords_of(p);
    let (x, y, z, t) = (sp.value(&c[0]), sp.value(&c[1]), sp.value(&c[2]), sp.value(&c[3]));
    if z.is_zero() {
        return Err("Z = 0".into());
    }
    // -X^2 + Y^2 = Z^2 + d T^2 and XY = ZT
    if y.sq().sub(&x.sq()) != z.sq().add(&fp::d().mul(&t.sq())) {
        return Err("curve equation -X^2+Y^2 = Z^2+dT^2 violated by the internal coordinates".into());
    }
    if x.mul(&y) != z.mul(&t) {
        return Err("XY != ZT".into());
    }
    let zi = z.inv();
    if x.mul(&zi) != m.x || y.mul(&zi) != m.y {
        return Err(format!(
            "affine point ({}, {}) differs from group-law result ({}, {})",
            x.mul(&zi).0.hex(),
            y.mul(&zi).0.hex(),
            m.x.0.hex(),
            m.y.0.hex()
        ));
    }
    let enc = guarded(|| p.compress()).map_err(|e| format!("panic in compress: {}", e))?;
    if enc.0 != m.compress() {
        return Err(format!("compress = {} want {}", hex(&enc.0), hex(&m.compress())));
    }
    let (m_id, m_small, m_free) = match aj {
        Some((a, j)) => (a.is_zero() && *j == 0, a.is_zero(), *j == 0),
        None => (
            m.is_identity(),
            small_order_fast(m),
            match tor {
                Some(j) => j == 0,
                None => !deep || m.is_torsion_free(),
            },
        ),
    };
    if p.is_identity() != m_id {
        return Err(format!("is_identity = {} want {}", p.is_identity(), m_id));
    }
    if bool::from(p.ct_eq(&EdwardsPoint::identity())) != m_id {
        return Err("ct_eq(identity) disagrees".into());
    }
    if bool::from(group::Group::is_identity(p)) != m_id {
        return Err(format!("group::Group::is_identity = {} want {}", !m_id, m_id));
    }
    if p.is_small_order() != m_small {
        return Err(format!("is_small_order = {} want {}", p.is_small_order(), m_small));
    }
    if deep {
        let tf = guarded(|| p.is_torsion_free()).map_err(|e| format!("panic in is_torsion_free: {}", e))?;
        if tf != m_free {
            return Err(format!("is_torsion_free = {} want {}", tf, m_free));
        }
    }
    Ok(())
}

#[derive(Clone, Copy, Debug, PartialEq, Eq, Hash, serde::Serialize, serde::Deserialize)]
pub enum Op {
    Add(usize),
    Sub(usize),
    RSub(usize),
    AddAssign(usize),
    SubAssign(usize),
    Neg,
    Double,
    GroupDouble,
    Cofactor,
    Recompress,
    SubSelf,
    Select(usize),
    Zeroize,    // the wiped point is the identity in *all four* coordinates and usable afterwards
    Sum(usize), // Sum over [P, pool[i], P] by reference and by value
}

#[derive(Clone, Debug, PartialEq, Eq, Hash)]
struct St {
    depth: u8,
    c: Coords,
    m: Pt,
    aj: Option<(U, u8)>,
    tor: u8,
    bad: Option<String>,
}

fn tor_step(op: Op, tor: u8, pool: &[Known]) -> u8 {
    let pj = |i: usize| pool[i].aj.as_ref().expect("pool points have known (a, j)").1;
    (match op {
        Op::Add(i) | Op::AddAssign(i) => tor + pj(i),
        Op::Sub(i) | Op::SubAssign(i) => tor + 8 - pj(i),
        Op::RSub(i) => pj(i) + 8 - tor,
        Op::Neg => 8 - tor,
        Op::Double | Op::GroupDouble => 2 * tor,
        Op::Cofactor | Op::SubSelf | Op::Zeroize => 0,
        Op::Sum(i) => 2 * tor + pj(i),
        Op::Recompress | Op::Select(_) => tor,
    }) % 8
}

struct Machine {
    sp: Spec,
    inits: Vec<Known>,
    pool: Vec<Known>,
    /// points every reached state is compared with (`==`, `ct_eq`): all eight torsion
    /// translates of the pool multipliers, so that pairs that differ only by a torsion point
    /// (in particular the two order-4 points with y = 0, and P vs -P) are always among them
    eqpool: Vec<Known>,
    max_depth: u8,
    ctx: usize,
}
impl Machine {
    fn ctx(&self) -> &Ctx {
        unsafe { &*(self.ctx as *const Ctx) }
    }
}

fn aj_add(a: &Option<(U, u8)>, b: &Option<(U, u8)>, neg_b: bool) -> Option<(U, u8)> {
    match (a, b) {
        (Some((a1, j1)), Some((a2, j2))) => {
            let (a2, j2) = if neg_b { (Zl(*a2).neg().0, (8 - *j2) % 8) } else { (*a2, *j2) };
            Some((Zl(*a1).add(&Zl(a2)).0, (*j1 + j2) % 8))
        }
        _ => None,
    }
}
fn aj_neg(a: &Option<(U, u8)>) -> Option<(U, u8)> {
    a.as_ref().map(|(a, j)| (Zl(*a).neg().0, (8 - *j) % 8))
}
fn aj_mul(a: &Option<(U, u8)>, k: u64) -> Option<(U, u8)> {
    a.as_ref().map(|(a, j)| (Zl(*a).mul(&Zl::from_u64(k)).0, ((*j as u64 * k) % 8) as u8))
}

pub fn step(op: Op, p: &EdwardsPoint, m: &Pt, aj: &Option<(U, u8)>, pool: &[Known]) -> Result<(EdwardsPoint, Pt, Option<(U, u8)>), String> {
    let r = guarded(|| -> (EdwardsPoint, Pt, Option<(U, u8)>) {
        match op {
            Op::Add(i) => (p + &pool[i].real, m.add(&pool[i].pt), aj_add(aj, &pool[i].aj, false)),
            Op::Sub(i) => (p - &pool[i].real, m.sub(&pool[i].pt), aj_add(aj, &pool[i].aj, true)),
            Op::RSub(i) => (&pool[i].real - p, pool[i].pt.sub(m), aj_add(&pool[i].aj, aj, true)),
            Op::AddAssign(i) => {
                let mut x = *p;
                x += &pool[i].real;
                (x, m.add(&pool[i].pt), aj_add(aj, &pool[i].aj, false))
            }
            Op::SubAssign(i) => {
                let mut x = *p;
                x -= &pool[i].real;
                (x, m.sub(&pool[i].pt), aj_add(aj, &pool[i].aj, true))
            }
            Op::Neg => (-p, m.neg(), aj_neg(aj)),
            Op::Double => (p + p, m.dbl(), aj_mul(aj, 2)),
            Op::GroupDouble => (group::Group::double(p), m.dbl(), aj_mul(aj, 2)),
            Op::Cofactor => (p.mul_by_cofactor(), m.dbl().dbl().dbl(), aj_mul(aj, 8)),
            Op::Recompress => (p.compress().decompress().expect("own encoding must decompress"), *m, aj.clone()),
            Op::SubSelf => (p - p, ed::ID, aj.as_ref().map(|_| (U::ZERO, 0))),
            #[cfg(feature = "zeroize")]
            Op::Zeroize => {
                let mut z = *p;
                zeroize::Zeroize::zeroize(&mut z);
                (z, ed::ID, aj.as_ref().map(|_| (U::ZERO, 0)))
            }
            #[cfg(not(feature = "zeroize"))]
            Op::Zeroize => unreachable!("built without the zeroize feature"),
            Op::Sum(i) => {
                let q = pool[i].real;
                let by_ref: EdwardsPoint = [*p, q, *p].iter().sum();
                let by_val: EdwardsPoint = vec![*p, q, *p].into_iter().sum();
                // iterators whose size hint is not exact (lower bound 0) must sum to the same point
                let by_filter: EdwardsPoint = [*p, q, *p].iter().filter(|_| std::hint::black_box(true)).sum();
                let by_flat: EdwardsPoint = [[*p, q], [*p, EdwardsPoint::identity()]].iter().flat_map(|a| a.iter()).sum();
                assert!(by_ref.compress() == by_val.compress() && by_filter.compress() == by_ref.compress() && by_flat.compress() == by_ref.compress(), "Sum by reference / by value / over filtered iterators disagree");
                (by_ref, m.add(&pool[i].pt).add(m), aj_add(&aj_mul(aj, 2), &pool[i].aj, false))
            }
            Op::Select(i) => {
                use subtle::ConditionallySelectable;
                let a = EdwardsPoint::conditional_select(&pool[i].real, p, subtle::Choice::from(1));
                let b = EdwardsPoint::conditional_select(p, &pool[i].real, subtle::Choice::from(0));
                assert!(coords_of(&a) == coords_of(p) && coords_of(&b) == coords_of(p), "conditional_select");
                let mut c = pool[i].real;
                c.conditional_assign(p, subtle::Choice::from(1));
                (c, *m, aj.clone())
            }
        }
    })
    .map_err(|e| format!("panic: {}", e))?;
    Ok(r)
}

impl Model for Machine {
    type State = St;
    type Action = Op;
    fn init_states(&self) -> Vec<St> {
        self.inits
            .iter()
            .map(|k| {
                let tor = match &k.aj {
                    Some((_, j)) => *j,
                    None => torsion_index(&k.pt),
                };
                let mut bad = check_point_t(&self.sp, &k.real, &k.pt, &k.aj, Some(tor), true).err().map(|e| format!("initial point {}: {}", k.name, e));
                if bad.is_none() {
                    for e in &self.eqpool {
                        let want = k.pt == e.pt;
                        if (k.real == e.real) != want {
                            bad = Some(format!("initial point {} == {} gives {} but model says {}", k.name, e.name, k.real == e.real, want));
                            break;
                        }
                    }
                }
                St { depth: 0, c: coords_of(&k.real), m: k.pt, aj: k.aj.clone(), tor, bad }
            })
            .collect()
    }
    fn actions(&self, s: &St, out: &mut Vec<Op>) {
        if s.bad.is_some() || s.depth >= self.max_depth {
            return;
        }
        out.extend([Op::Neg, Op::Double, Op::GroupDouble, Op::Cofactor, Op::Recompress, Op::SubSelf]);
        #[cfg(feature = "zeroize")]
        out.push(Op::Zeroize);
        for i in 0..self.pool.len() {
            out.extend([Op::Add(i), Op::Sub(i), Op::RSub(i)]);
            if s.depth == 0 {
                out.extend([Op::AddAssign(i), Op::SubAssign(i), Op::Select(i), Op::Sum(i)]);
            }
        }
    }
    fn next_state(&self, s: &St, a: Op) -> Option<St> {
        crate::apply_force();
        let ctx = self.ctx();
        ctx.transitions.fetch_add(1, Ordering::Relaxed);
        let p = point_of(&s.c);
        let fail = |e: String| St { depth: s.depth + 1, c: s.c.clone(), m: s.m, aj: s.aj.clone(), tor: s.tor, bad: Some(format!("{:?}: {}", a, e)) };
        let tor = tor_step(a, s.tor, &self.pool);
        Some(match step(a, &p, &s.m, &s.aj, &self.pool) {
            Ok((q, m, aj)) => {
                // equality against every point of the equality pool, both ways
                for k in &self.eqpool {
                    let want = m == k.pt;
                    if (q == k.real) != want || (k.real == q) != want || bool::from(q.ct_eq(&k.real)) != want {
                        return Some(fail(format!("== {} gives {} / {} but model says {}", k.name, q == k.real, k.real == q, want)));
                    }
                }
                if let Some((_, j)) = &aj {
                    assert_eq!(*j, tor, "model bookkeeping: torsion component");
                }
                match check_point_t(&self.sp, &q, &m, &aj, Some(tor), true) {
                    Ok(()) => {
                        if m.is_identity() {
                            ctx.count("states_equal_to_identity_by_nontrivial_history", 1);
                        }
                        if let Some((_, j)) = &aj {
                            if *j != 0 {
                                ctx.count("states_with_torsion_component", 1);
                            }
                        }
                        St { depth: s.depth + 1, c: coords_of(&q), m, aj, tor, bad: None }
                    }
                    Err(e) => fail(e),
                }
            }
            Err(e) => fail(e),
        })
    }
    fn properties(&self) -> Vec<Property<Self>> {
        vec![Property::always("on curve, group law", |_, s: &St| s.bad.is_none())]
    }
}

/// A-ENC-E: candidate 32-byte encodings.
pub fn encodings(quick: bool) -> Vec<[u8; 32]> {
    let mut v: Vec<[u8; 32]> = alpha::fe_bytes();
    let p = fp::p();
    let both = |x: &U, v: &mut Vec<[u8; 32]>| {
        let b = x.to_le32();
        v.push(b);
        let mut c = b;
        c[31] |= 0x80;
        v.push(c);
    };
    for y in 0..256u64 {
        both(&U::from_u64(y), &mut v);
    }
    for k in 1..=256u64 {
        both(&p.sub(&U::from_u64(k)), &mut v);
    }
    for k in 0..19u64 {
        both(&p.add(&U::from_u64(k)), &mut v);
    }
    for k in pool(if quick { 4 } else { 10 }, true) {
        let e = k.pt.compress();
        v.push(e);
        v.push(k.pt.neg().compress());
        // non-canonical y (y + p) where it fits in 255 bits
        let y = k.pt.y.0;
        if y.add(&p).bits() <= 255 {
            let mut b = y.add(&p).to_le32();
            v.push(b);
            b[31] |= 0x80;
            v.push(b);
        }
        // flipped sign bit (x = 0 points: "negative zero")
        let mut f = e;
        f[31] ^= 0x80;
        v.push(f);
    }
    let mut seen = std::collections::HashSet::new();
    v.retain(|x| seen.insert(*x));
    v
}

pub fn run(ctx: &Ctx) {
    let sp = spec();
    let quick = ctx.quick();
    // ---- decoder enumeration
    let encs = encodings(quick);
    ctx.bound("decoder_encodings", json!(encs.len()));
    let stats = std::sync::Mutex::new([0u64; 4]); // accepted, rejected, accepted non-canonical, negative zero
    encs.par_iter().for_each(|e| {
        ctx.eval(1);
        let m = ed::decompress(e);
        let got = guarded(|| CompressedEdwardsY(*e).decompress());
        let case = json!({"kind": "decompress", "bytes": hex(e)});
        match got {
            Err(pn) => ctx.violation("ed.decompress", &format!("panic: {}", pn), case),
            Ok(g) => {
                ctx.record(&format!("ed.decompress/{}", hex(e)), &g.map(|q| q.compress().0.to_vec()).unwrap_or_default());
                match (g, m) {
                    (None, None) => stats.lock().unwrap()[1] += 1,
                    (Some(q), Some(mp)) => {
                        let mut st = stats.lock().unwrap();
                        st[0] += 1;
                        if U::from_le(e).low_bits(255) >= fp::p() {
                            st[2] += 1;
                        }
                        if mp.x.is_zero() && e[31] >> 7 == 1 {
                            st[3] += 1;
                        }
                        drop(st);
                        if let Err(err) = check_point(&sp, &q, &mp, &None, !quick) {
                            ctx.violation("ed.decompress", &err, case);
                        } else if !mp.x.is_zero() && mp.x.is_neg() != (e[31] >> 7 == 1) {
                            ctx.violation("ed.decompress", "model sign mismatch", case);
                        }
                    }
                    (g, m) => ctx.violation(
                        "ed.decompress",
                        &format!("accepts={} but y admits an x: {}", g.is_some(), m.is_some()),
                        case,
                    ),
                }
            }
        }
    });
    {
        let st = stats.lock().unwrap();
        ctx.count("decode_accepted", st[0]);
        ctx.count("decode_rejected_off_curve", st[1]);
        ctx.count("decode_accepted_noncanonical_y", st[2]);
        ctx.count("decode_accepted_negative_zero", st[3]);
    }
    // ---- sums of <= 3 pool points
    let small_pool = pool(3, false);
    {
        let n = small_pool.len();
        let mut seqs: Vec<Vec<usize>> = vec![vec![]];
        for a in 0..n {
            seqs.push(vec![a]);
            for b in 0..n {
                seqs.push(vec![a, b]);
                if !quick || (a + b) % 3 == 0 {
                    for c in 0..n {
                        seqs.push(vec![a, b, c]);
                    }
                }
            }
        }
        seqs.par_iter().for_each(|s| {
            ctx.eval(1);
            let got: EdwardsPoint = s.iter().map(|i| small_pool[*i].real).sum();
            let m = s.iter().fold(ed::ID, |acc, i| acc.add(&small_pool[*i].pt));
            if let Err(e) = check_point(&sp, &got, &m, &None, false) {
                ctx.violation("ed.sum", &e, json!({"kind": "sum", "seq": s}));
            }
        });
        ctx.count("sum_sequences", seqs.len() as u64);
    }
    // ---- Default impls: the identity, as a point and as an encoding
    {
        ctx.eval(2);
        let dp = EdwardsPoint::default();
        let dc = CompressedEdwardsY::default();
        if let Err(e) = check_point(&spec(), &dp, &ed::ID, &Some((U::ZERO, 0)), true) {
            ctx.violation("ed.default", &format!("EdwardsPoint::default(): {}", e), json!({"kind": "ed_default"}));
        }
        if dc.0 != ed::ID.compress() || dc.decompress().map(|p| p.compress().0) != Some(ed::ID.compress()) || dc != CompressedEdwardsY::identity() {
            ctx.violation("ed.default", &format!("CompressedEdwardsY::default() = {} is not the encoding of the identity", hex(&dc.0)), json!({"kind": "ed_default"}));
        }
    }
    // ---- the prime-order wrapper (`group` feature): its own equality impl must be the group's equality — P against
    //      every one of {[k]B : -4 <= k <= 4}, so P vs -P (same y), P vs 2P, identity vs non-identity
    {
        use curve25519_dalek::edwards::SubgroupPoint;
        use curve25519_dalek::scalar::Scalar;
        use group::Group;
        let g = SubgroupPoint::generator();
        let pts: Vec<(i64, SubgroupPoint)> = (-4i64..=4).map(|k| (k, if k >= 0 { g * Scalar::from(k as u64) } else { -(g * Scalar::from((-k) as u64)) })).collect();
        for (i, a) in &pts {
            let want_enc = if *i >= 0 { ed::mul_base(&U::from_u64(*i as u64)) } else { ed::mul_base(&U::from_u64((-*i) as u64)).neg() }.compress();
            ctx.eval(1);
            if EdwardsPoint::from(*a).compress().0 != want_enc {
                ctx.violation("ed.subgroup", &format!("[{}]G as a SubgroupPoint encodes as {}", i, hex(&EdwardsPoint::from(*a).compress().0)), json!({"kind": "subgroup_eq", "i": i}));
            }
            for (j, b) in &pts {
                ctx.eval(1);
                let want = i == j;
                let got = guarded(|| (a == b, bool::from(a.ct_eq(b)), bool::from(Group::is_identity(a))));
                if got != Ok((want, want, *i == 0)) {
                    ctx.violation("ed.subgroup", &format!("SubgroupPoint [{}]G vs [{}]G: (==, ct_eq, is_identity) = {:?} want ({}, {}, {})", i, j, got, want, want, *i == 0), json!({"kind": "subgroup_eq", "i": i, "j": j}));
                }
            }
        }
    }
    // ---- the history machine
    let mpool = pool(if quick { 3 } else { 5 }, false);
    let mut inits = pool(if quick { 4 } else { 10 }, true);
    // decoded small-y points with unknown (a, j)
    for y in 2u64..40 {
        let mut b = [0u8; 32];
        b[0] = y as u8;
        if let Some(pt) = ed::decompress(&b) {
            inits.push(Known { name: format!("decompress(y={})", y), pt, aj: None, real: CompressedEdwardsY(b).decompress().expect("model accepts") });
            if inits.iter().filter(|k| k.aj.is_none()).count() >= if quick { 2 } else { 6 } {
                break;
            }
        }
    }
    // constants as real objects (not via decompress): identity, basepoint, torsion table
    inits.push(Known { name: "Identity::identity()".into(), pt: ed::ID, aj: Some((U::ZERO, 0)), real: real::real_identity() });
    inits.push(Known { name: "ED25519_BASEPOINT_POINT".into(), pt: ed::basepoint(), aj: Some((U::ONE, 0)), real: real::real_basepoint() });
    for j in 0..8 {
        inits.push(Known { name: format!("EIGHT_TORSION[{}]", j), pt: ed::torsion()[j], aj: Some((U::ZERO, j as u8)), real: real::real_torsion(j) });
    }
    let depth = if quick { 2 } else if ctx.deep { 4 } else { 3 };
    ctx.bound("machine_depth", json!(depth));
    ctx.bound("machine_pool", json!(mpool.len()));
    ctx.bound("machine_inits", json!(inits.len()));
    let eqpool = pool(if quick { 3 } else { 5 }, true);
    ctx.bound("machine_equality_pool", json!(eqpool.len()));
    let deep_inits: Vec<Known> = inits.iter().filter(|k| k.aj.is_some()).take(6).chain(inits.iter().filter(|k| k.aj.is_none()).take(1)).cloned().collect();
    let m = Machine { sp: spec(), inits, pool: mpool, eqpool: eqpool.clone(), max_depth: depth, ctx: ctx as *const Ctx as usize };
    let o = crate::bfs::explore(&m, depth as usize, |s| s.bad.clone(), 8);
    crate::bfs::finish(ctx, "ed.machine", &o, depth as usize);
    if ctx.deep {
        // longer histories over a narrower menu: two pool points, seven initial states, depth 5
        let d2 = 5u8;
        let m2 = Machine { sp: spec(), inits: deep_inits, pool: pool(2, false), eqpool, max_depth: d2, ctx: ctx as *const Ctx as usize };
        ctx.bound("deep_machine", json!({"depth": d2, "pool": m2.pool.len(), "inits": m2.inits.len()}));
        let o2 = crate::bfs::explore(&m2, d2 as usize, |s| s.bad.clone(), 8);
        crate::bfs::finish(ctx, "ed.machine.deep", &o2, d2 as usize);
    }
    ctx.sample_tag("machine", json!({"depth": depth, "note": "BFS over raw (X,Y,Z,T) representations; each transition = one real group operation checked against the affine law, curve equation, compress and predicates"}));
}
