pub mod c01;
