pub mod c01;
pub mod c02;
pub mod c03;
pub mod c04;
