//! Shared helpers for the Ed25519 properties (C08, C09, C13, C15).

use crate::ev::guarded;
use crate::model::eddsa;
use crate::model::nat::unhex;
use ed25519_dalek::{Signature, SigningKey, VerifyingKey};
use sha2::{Digest, Sha512};
use signature::{DigestVerifier, Verifier};

pub fn a32(v: &[u8]) -> [u8; 32] {
    let mut a = [0u8; 32];
    a.copy_from_slice(v);
    a
}

/// Seeds: RFC 8032 vectors, zeros, ones, patterns.
pub fn seeds(n: usize) -> Vec<[u8; 32]> {
    let mut v = vec![
        a32(&unhex("9d61b19deffd5a60ba844af492ec2cc44449c5697b326919703bac031cae7f60")),
        a32(&unhex("4ccd089b28ff96da9db6c346ec114e0f5b8a319f35aba624da8cf6ed4fb8a6fb")),
        [0u8; 32],
        [0xff; 32],
        a32(&unhex("c5aa8df43f9f837bedb7442f31dcb7b166d38535076f094b85ce3a2e0b4458f7")),
        a32(&unhex("833fe62409237b9d62ec77587520911e9a759cec1d19755b7da901b96dca3d42")),
        [0x55; 32],
        [0xaa; 32],
    ];
    for i in 0..8u8 {
        let mut s = [0u8; 32];
        s[0] = i + 1;
        s[31] = 0x80 >> (i % 8);
        v.push(s);
    }
    v.truncate(n);
    v
}

/// All real verifiers for a (key bytes, message, signature bytes, context) tuple.
/// Returns (name, Ok(accepted) | Err(panic message)).  `ctx = None` = pure Ed25519.
pub fn real_verifiers(key: &[u8; 32], msg: &[u8], sig: &[u8; 64], ctx: Option<&[u8]>) -> Vec<(&'static str, bool, Result<bool, String>)> {
    // (name, is_strict, outcome)
    let mut out = Vec::new();
    let vk = match guarded(|| VerifyingKey::from_bytes(key)) {
        Ok(Ok(vk)) => vk,
        Ok(Err(_)) => {
            out.push(("VerifyingKey::from_bytes", false, Ok(false)));
            out.push(("VerifyingKey::from_bytes", true, Ok(false)));
            return out;
        }
        Err(e) => {
            out.push(("VerifyingKey::from_bytes", false, Err(e)));
            return out;
        }
    };
    let sg = Signature::from_bytes(sig);
    // the slice constructor is a separate route to a key (also the one serde and keypair import take): it must yield
    // the same key, bytes included (the hash H(R || A || M) is taken over the stored bytes)
    match guarded(|| VerifyingKey::try_from(&key[..])) {
        Ok(Ok(vk2)) => {
            if vk2.as_bytes() != key || vk2.to_bytes() != *key || vk2 != vk {
                out.push(("VerifyingKey::try_from(&[u8])", false, Err("the key built from a slice does not keep the bytes it was built from".into())));
            }
            match ctx {
                None => {
                    out.push(("try_from(&[u8]).verify", false, guarded(|| vk2.verify(msg, &sg).is_ok())));
                    out.push(("try_from(&[u8]).verify_strict", true, guarded(|| vk2.verify_strict(msg, &sg).is_ok())));
                }
                Some(c) => {
                    out.push(("try_from(&[u8]).verify_prehashed", false, guarded(|| vk2.verify_prehashed(Sha512::new().chain_update(msg), Some(c), &sg).is_ok())));
                }
            }
        }
        Ok(Err(_)) => out.push(("VerifyingKey::try_from(&[u8])", false, Err("refuses key bytes that from_bytes accepts".into()))),
        Err(e) => out.push(("VerifyingKey::try_from(&[u8])", false, Err(e))),
    }
    match ctx {
        None => {
            out.push(("Verifier::verify", false, guarded(|| vk.verify(msg, &sg).is_ok())));
            out.push(("hazmat::raw_verify", false, guarded(|| ed25519_dalek::hazmat::raw_verify::<Sha512>(&vk, msg, &sg).is_ok())));
            out.push(("verify_strict", true, guarded(|| vk.verify_strict(msg, &sg).is_ok())));
        }
        Some(c) => {
            let dg = || Sha512::new().chain_update(msg);
            out.push(("verify_prehashed", false, guarded(|| vk.verify_prehashed(dg(), Some(c), &sg).is_ok())));
            out.push(("hazmat::raw_verify_prehashed", false, guarded(|| ed25519_dalek::hazmat::raw_verify_prehashed::<Sha512, Sha512>(&vk, dg(), Some(c), &sg).is_ok())));
            out.push(("verify_prehashed_strict", true, guarded(|| vk.verify_prehashed_strict(dg(), Some(c), &sg).is_ok())));
            if c.len() <= 255 {
                out.push(("Context::verify_digest", false, guarded(|| vk.with_context(c).expect("context <= 255 bytes").verify_digest(dg(), &sg).is_ok())));
            }
            if c.is_empty() {
                out.push(("verify_prehashed(None)", false, guarded(|| vk.verify_prehashed(dg(), None, &sg).is_ok())));
                out.push(("DigestVerifier::verify_digest", false, guarded(|| vk.verify_digest(dg(), &sg).is_ok())));
            }
        }
    }
    out
}

/// The same through a SigningKey (honest keys only).
pub fn real_verifiers_sk(sk: &SigningKey, msg: &[u8], sig: &[u8; 64], ctx: Option<&[u8]>) -> Vec<(&'static str, bool, Result<bool, String>)> {
    let sg = Signature::from_bytes(sig);
    let mut out = Vec::new();
    match ctx {
        None => {
            out.push(("SigningKey::verify", false, guarded(|| sk.verify(msg, &sg).is_ok())));
            out.push(("SigningKey::verify_strict", true, guarded(|| sk.verify_strict(msg, &sg).is_ok())));
            out.push(("Verifier for SigningKey", false, guarded(|| Verifier::verify(sk, msg, &sg).is_ok())));
        }
        Some(c) => {
            out.push(("SigningKey::verify_prehashed", false, guarded(|| sk.verify_prehashed(Sha512::new().chain_update(msg), Some(c), &sg).is_ok())));
        }
    }
    out
}

/// The model's decision for the same tuple.
pub fn model_accepts(key: &[u8; 32], msg: &[u8], sig: &[u8; 64], ctx: Option<&[u8]>, strict: bool) -> bool {
    let legacy = cfg!(feature = "legacy");
    match ctx {
        None => eddsa::verify(key, msg, sig, None, strict, legacy).is_ok(),
        Some(c) => {
            if c.len() > 255 {
                return false; // outside dom2: must be refused
            }
            let ph = eddsa::sha512(&[msg]);
            eddsa::verify(key, &ph, sig, Some(c), strict, legacy).is_ok()
        }
    }
}
