//! C16 — serialised forms are the canonical encodings and deserialisation validates.

use crate::alpha;
use crate::ev::{guarded, Ctx};
use crate::model::ed;
use crate::model::nat::{hex, U};
use crate::model::ris;
use crate::model::zl::l;
use crate::props::c03;
use crate::props::c06;
use crate::props::sigs::seeds;
use serde::de::value::{BytesDeserializer, Error as VErr, SeqDeserializer};
use serde::de::{DeserializeSeed, Deserializer, IntoDeserializer, SeqAccess, Visitor};
use serde::{Deserialize, Serialize};
use serde_json::json;

/// What one scripted sequence element does.
#[derive(Clone, Copy, Debug, PartialEq, Eq)]
enum El {
    Byte(u8),
    WrongType, // a string where a u8 is expected
}

/// A format-free deserializer that offers a scripted sequence (or byte string) to the
/// visitor, so the `Deserialize` impl is driven at the level of the serde data model.
struct Script {
    els: Vec<El>,
    consumed: std::rc::Rc<std::cell::Cell<usize>>,
}

struct ScriptSeq<'a> {
    els: &'a [El],
    pos: usize,
    consumed: std::rc::Rc<std::cell::Cell<usize>>,
}

impl<'de, 'a> SeqAccess<'de> for ScriptSeq<'a> {
    type Error = VErr;
    fn next_element_seed<T: DeserializeSeed<'de>>(&mut self, seed: T) -> Result<Option<T::Value>, VErr> {
        if self.pos >= self.els.len() {
            return Ok(None);
        }
        let e = self.els[self.pos];
        self.pos += 1;
        self.consumed.set(self.pos);
        match e {
            El::Byte(b) => seed.deserialize(b.into_deserializer()).map(Some),
            El::WrongType => seed.deserialize("x".into_deserializer()).map(Some),
        }
    }
    fn size_hint(&self) -> Option<usize> {
        Some(self.els.len() - self.pos)
    }
}

impl<'de> Deserializer<'de> for Script {
    type Error = VErr;
    fn deserialize_any<V: Visitor<'de>>(self, visitor: V) -> Result<V::Value, VErr> {
        let n = self.els.len();
        let consumed = self.consumed.clone();
        let r = visitor.visit_seq(ScriptSeq { els: &self.els, pos: 0, consumed: self.consumed.clone() })?;
        // like every real format: elements left over after the visitor returns are an error
        if consumed.get() < n {
            return Err(serde::de::Error::custom("trailing elements"));
        }
        Ok(r)
    }
    fn deserialize_newtype_struct<V: Visitor<'de>>(self, _name: &'static str, visitor: V) -> Result<V::Value, VErr> {
        // as every real format does: a newtype struct is transparent
        visitor.visit_newtype_struct(self)
    }
    fn deserialize_tuple<V: Visitor<'de>>(self, len: usize, visitor: V) -> Result<V::Value, VErr> {
        // the length a type *declares* is what length-aware formats (CBOR, postcard, ...) put on or expect from the wire
        DECLARED_TUPLE_LEN.with(|d| d.set(Some(len)));
        self.deserialize_any(visitor)
    }
    serde::forward_to_deserialize_any! {
        bool i8 i16 i32 i64 i128 u8 u16 u32 u64 u128 f32 f64 char str string bytes byte_buf option unit
        unit_struct seq tuple_struct map struct enum identifier ignored_any
    }
}

thread_local! {
    static DECLARED_TUPLE_LEN: std::cell::Cell<Option<usize>> = const { std::cell::Cell::new(None) };
}

/// A format-free *serializer*: records what the `Serialize` impl hands to the data model (a tuple with a declared
/// length and its elements, or a byte string), so that the declared shape can be checked independently of what
/// bincode and JSON happen to do with it (both ignore a tuple's declared length).
#[derive(Debug, PartialEq, Eq)]
enum Shape {
    Tuple { declared: usize, elements: Vec<u8> },
    Bytes(Vec<u8>),
}
struct Rec;
struct RecTuple {
    declared: usize,
    elements: Vec<u8>,
}
struct ByteOnly;
macro_rules! unsupported {
    ($($f:ident($t:ty)),*) => { $(fn $f(self, _v: $t) -> Result<Self::Ok, VErr> { Err(serde::ser::Error::custom("unexpected data-model call")) })* };
}
impl serde::Serializer for ByteOnly {
    type Ok = u8;
    type Error = VErr;
    type SerializeSeq = serde::ser::Impossible<u8, VErr>;
    type SerializeTuple = serde::ser::Impossible<u8, VErr>;
    type SerializeTupleStruct = serde::ser::Impossible<u8, VErr>;
    type SerializeTupleVariant = serde::ser::Impossible<u8, VErr>;
    type SerializeMap = serde::ser::Impossible<u8, VErr>;
    type SerializeStruct = serde::ser::Impossible<u8, VErr>;
    type SerializeStructVariant = serde::ser::Impossible<u8, VErr>;
    fn serialize_u8(self, v: u8) -> Result<u8, VErr> {
        Ok(v)
    }
    unsupported!(serialize_bool(bool), serialize_i8(i8), serialize_i16(i16), serialize_i32(i32), serialize_i64(i64), serialize_u16(u16), serialize_u32(u32), serialize_u64(u64), serialize_f32(f32), serialize_f64(f64), serialize_char(char), serialize_str(&str), serialize_bytes(&[u8]), serialize_unit_struct(&'static str));
    fn serialize_none(self) -> Result<u8, VErr> { Err(serde::ser::Error::custom("unexpected")) }
    fn serialize_some<T: ?Sized + Serialize>(self, _v: &T) -> Result<u8, VErr> { Err(serde::ser::Error::custom("unexpected")) }
    fn serialize_unit(self) -> Result<u8, VErr> { Err(serde::ser::Error::custom("unexpected")) }
    fn serialize_unit_variant(self, _n: &'static str, _i: u32, _v: &'static str) -> Result<u8, VErr> { Err(serde::ser::Error::custom("unexpected")) }
    fn serialize_newtype_struct<T: ?Sized + Serialize>(self, _n: &'static str, _v: &T) -> Result<u8, VErr> { Err(serde::ser::Error::custom("unexpected")) }
    fn serialize_newtype_variant<T: ?Sized + Serialize>(self, _n: &'static str, _i: u32, _v: &'static str, _x: &T) -> Result<u8, VErr> { Err(serde::ser::Error::custom("unexpected")) }
    fn serialize_seq(self, _l: Option<usize>) -> Result<Self::SerializeSeq, VErr> { Err(serde::ser::Error::custom("unexpected")) }
    fn serialize_tuple(self, _l: usize) -> Result<Self::SerializeTuple, VErr> { Err(serde::ser::Error::custom("unexpected")) }
    fn serialize_tuple_struct(self, _n: &'static str, _l: usize) -> Result<Self::SerializeTupleStruct, VErr> { Err(serde::ser::Error::custom("unexpected")) }
    fn serialize_tuple_variant(self, _n: &'static str, _i: u32, _v: &'static str, _l: usize) -> Result<Self::SerializeTupleVariant, VErr> { Err(serde::ser::Error::custom("unexpected")) }
    fn serialize_map(self, _l: Option<usize>) -> Result<Self::SerializeMap, VErr> { Err(serde::ser::Error::custom("unexpected")) }
    fn serialize_struct(self, _n: &'static str, _l: usize) -> Result<Self::SerializeStruct, VErr> { Err(serde::ser::Error::custom("unexpected")) }
    fn serialize_struct_variant(self, _n: &'static str, _i: u32, _v: &'static str, _l: usize) -> Result<Self::SerializeStructVariant, VErr> { Err(serde::ser::Error::custom("unexpected")) }
}
impl serde::ser::SerializeTuple for RecTuple {
    type Ok = Shape;
    type Error = VErr;
    fn serialize_element<T: ?Sized + Serialize>(&mut self, v: &T) -> Result<(), VErr> {
        self.elements.push(v.serialize(ByteOnly)?);
        Ok(())
    }
    fn end(self) -> Result<Shape, VErr> {
        Ok(Shape::Tuple { declared: self.declared, elements: self.elements })
    }
}
impl serde::Serializer for Rec {
    type Ok = Shape;
    type Error = VErr;
    type SerializeSeq = serde::ser::Impossible<Shape, VErr>;
    type SerializeTuple = RecTuple;
    type SerializeTupleStruct = serde::ser::Impossible<Shape, VErr>;
    type SerializeTupleVariant = serde::ser::Impossible<Shape, VErr>;
    type SerializeMap = serde::ser::Impossible<Shape, VErr>;
    type SerializeStruct = serde::ser::Impossible<Shape, VErr>;
    type SerializeStructVariant = serde::ser::Impossible<Shape, VErr>;
    fn serialize_bytes(self, v: &[u8]) -> Result<Shape, VErr> {
        Ok(Shape::Bytes(v.to_vec()))
    }
    fn serialize_tuple(self, len: usize) -> Result<RecTuple, VErr> {
        Ok(RecTuple { declared: len, elements: Vec::new() })
    }
    fn serialize_newtype_struct<T: ?Sized + Serialize>(self, _n: &'static str, v: &T) -> Result<Shape, VErr> {
        v.serialize(Rec)
    }
    unsupported!(serialize_bool(bool), serialize_i8(i8), serialize_i16(i16), serialize_i32(i32), serialize_i64(i64), serialize_u8(u8), serialize_u16(u16), serialize_u32(u32), serialize_u64(u64), serialize_f32(f32), serialize_f64(f64), serialize_char(char), serialize_str(&str), serialize_unit_struct(&'static str));
    fn serialize_none(self) -> Result<Shape, VErr> { Err(serde::ser::Error::custom("unexpected")) }
    fn serialize_some<T: ?Sized + Serialize>(self, _v: &T) -> Result<Shape, VErr> { Err(serde::ser::Error::custom("unexpected")) }
    fn serialize_unit(self) -> Result<Shape, VErr> { Err(serde::ser::Error::custom("unexpected")) }
    fn serialize_unit_variant(self, _n: &'static str, _i: u32, _v: &'static str) -> Result<Shape, VErr> { Err(serde::ser::Error::custom("unexpected")) }
    fn serialize_newtype_variant<T: ?Sized + Serialize>(self, _n: &'static str, _i: u32, _v: &'static str, _x: &T) -> Result<Shape, VErr> { Err(serde::ser::Error::custom("unexpected")) }
    fn serialize_seq(self, _l: Option<usize>) -> Result<Self::SerializeSeq, VErr> { Err(serde::ser::Error::custom("unexpected")) }
    fn serialize_tuple_struct(self, _n: &'static str, _l: usize) -> Result<Self::SerializeTupleStruct, VErr> { Err(serde::ser::Error::custom("unexpected")) }
    fn serialize_tuple_variant(self, _n: &'static str, _i: u32, _v: &'static str, _l: usize) -> Result<Self::SerializeTupleVariant, VErr> { Err(serde::ser::Error::custom("unexpected")) }
    fn serialize_map(self, _l: Option<usize>) -> Result<Self::SerializeMap, VErr> { Err(serde::ser::Error::custom("unexpected")) }
    fn serialize_struct(self, _n: &'static str, _l: usize) -> Result<Self::SerializeStruct, VErr> { Err(serde::ser::Error::custom("unexpected")) }
    fn serialize_struct_variant(self, _n: &'static str, _i: u32, _v: &'static str, _l: usize) -> Result<Self::SerializeStructVariant, VErr> { Err(serde::ser::Error::custom("unexpected")) }
}

fn script_de<T: for<'de> Deserialize<'de>>(els: &[El]) -> Option<T> {
    let s = Script { els: els.to_vec(), consumed: Default::default() };
    T::deserialize(s).ok()
}

struct Spec<'a> {
    name: &'static str,
    /// does the native decoder accept these 32 bytes?
    native_ok: &'a dyn Fn(&[u8; 32]) -> bool,
    /// bincode form: raw 32 bytes (false) or u64 length prefix + bytes (true)
    length_prefixed: bool,
    /// the canonical encoding of the value that an accepted input denotes
    canon: &'a dyn Fn(&[u8; 32]) -> [u8; 32],
    /// derived newtype over [u8; 32]: serde's own SeqDeserializer presents a flat sequence to
    /// `deserialize_newtype_struct`, which is not the data-model shape of such a type
    derived_newtype: bool,
}

fn drive<T>(ctx: &Ctx, sp: &Spec, values: &[[u8; 32]], from_native: &dyn Fn(&[u8; 32]) -> Option<T>, to_native: &dyn Fn(&T) -> [u8; 32])
where
    T: Serialize + for<'de> Deserialize<'de>,
{
    let key = |what: &str| format!("serde.{}.{}", sp.name, what);
    for b in values {
        ctx.eval(1);
        let ok = (sp.native_ok)(b);
        let case = json!({"kind": "serde", "type": sp.name, "bytes": hex(b)});
        ctx.case(&case.to_string());
        // reference wire forms
        let mut want_bin = Vec::new();
        if sp.length_prefixed {
            want_bin.extend_from_slice(&32u64.to_le_bytes());
        }
        want_bin.extend_from_slice(b);
        let want_json = format!("[{}]", b.iter().map(|x| x.to_string()).collect::<Vec<_>>().join(","));
        // deserialisation of the reference forms accepts <=> the native decoder accepts
        let r = guarded(|| {
            let d1: Option<T> = bincode::deserialize(&want_bin).ok();
            let d2: Option<T> = serde_json::from_str(&want_json).ok();
            let d3: Option<T> = if sp.derived_newtype { None } else { T::deserialize(SeqDeserializer::<_, VErr>::new(b.iter().cloned())).ok() };
            DECLARED_TUPLE_LEN.with(|d| d.set(None));
            let d4: Option<T> = script_de(&b.iter().map(|x| El::Byte(*x)).collect::<Vec<_>>());
            if let Some(n) = DECLARED_TUPLE_LEN.with(|d| d.get()) {
                assert!(n == 32, "Deserialize declares a tuple of {} elements for a 32-byte encoding", n);
            }
            (d1, d2, d3, d4)
        });
        match r {
            Err(e) => {
                ctx.violation(&key("deserialize"), &format!("panic: {}", e), case.clone());
                continue;
            }
            Ok((d1, d2, d3, d4)) => {
                ctx.record(&format!("{}/{}", key("accept"), hex(b)), &[d1.is_some() as u8, d2.is_some() as u8]);
                for (fmt, d) in [("bincode", &d1), ("json", &d2), ("seq", &d3), ("script", &d4)] {
                    if fmt == "seq" && sp.derived_newtype {
                        continue;
                    }
                    if d.is_some() != ok {
                        ctx.violation(&key(&format!("deserialize.{}", fmt)), &format!("accepts={} but the native decoder accepts={}", d.is_some(), ok), case.clone());
                    } else if let Some(v) = d {
                        if to_native(v) != (sp.canon)(b) {
                            ctx.violation(&key(&format!("deserialize.{}", fmt)), "decoded value re-encodes differently", case.clone());
                        }
                    }
                }
            }
        }
        // serialisation of a valid value = reference form; round trip
        if ok {
            if let Some(v) = from_native(b) {
                let cb = (sp.canon)(b);
                let mut want_bin = Vec::new();
                if sp.length_prefixed {
                    want_bin.extend_from_slice(&32u64.to_le_bytes());
                }
                want_bin.extend_from_slice(&cb);
                let want_json = format!("[{}]", cb.iter().map(|x| x.to_string()).collect::<Vec<_>>().join(","));
                // the shape handed to the data model, independent of any format
                match guarded(|| v.serialize(Rec)) {
                    Ok(Ok(Shape::Tuple { declared, elements })) => {
                        if declared != 32 || elements != cb.to_vec() {
                            ctx.violation(&key("serialize.shape"), &format!("serialises as a tuple declared with {} elements holding {} (want 32 elements: the canonical bytes)", declared, elements.len()), case.clone());
                        }
                    }
                    Ok(Ok(Shape::Bytes(bs))) => {
                        if bs != cb.to_vec() {
                            ctx.violation(&key("serialize.shape"), "serialises as a byte string that is not the canonical encoding", case.clone());
                        }
                    }
                    Ok(Err(e)) => ctx.violation(&key("serialize.shape"), &format!("serialises as something other than a 32-tuple of u8 or a byte string: {}", e), case.clone()),
                    Err(e) => ctx.violation(&key("serialize.shape"), &format!("panic: {}", e), case.clone()),
                }
                let r = guarded(|| (bincode::serialize(&v).ok(), serde_json::to_string(&v).ok()));
                match r {
                    Ok((sb, sj)) => {
                        if sb.as_deref() != Some(&want_bin[..]) {
                            ctx.violation(&key("serialize.bincode"), &format!("got {:?} want {}", sb.map(|x| hex(&x)), hex(&want_bin)), case.clone());
                        }
                        if sj.as_deref() != Some(&want_json[..]) {
                            ctx.violation(&key("serialize.json"), &format!("got {:?} want {}", sj, want_json), case.clone());
                        }
                    }
                    Err(e) => ctx.violation(&key("serialize"), &format!("panic: {}", e), case.clone()),
                }
            }
        }
    }
    // ---- shapes: every sequence script of length 0..=34 over {valid byte, wrong type} with at
    // most 2 deviations from the valid 32-byte sequence of a valid value
    let base = values.iter().find(|b| (sp.native_ok)(b)).cloned();
    if let Some(b) = base {
        let good: Vec<El> = b.iter().map(|x| El::Byte(*x)).collect();
        let mut scripts: Vec<(String, Vec<El>)> = Vec::new();
        for n in 0..=34usize {
            let mut s: Vec<El> = good.iter().cloned().take(n.min(32)).collect();
            while s.len() < n {
                s.push(El::Byte(7));
            }
            scripts.push((format!("len{}", n), s));
        }
        for pos in [0usize, 1, 15, 31, 32, 33] {
            for total in [32usize, 33, 34] {
                if pos < total {
                    let mut s: Vec<El> = good.clone();
                    while s.len() < total {
                        s.push(El::Byte(9));
                    }
                    s[pos] = El::WrongType;
                    scripts.push((format!("wrongtype@{}of{}", pos, total), s.clone()));
                    if total == 34 && pos == 32 {
                        s[33] = El::WrongType;
                        scripts.push(("wrongtype@32,33of34".into(), s));
                    }
                }
            }
        }
        for (name, s) in scripts {
            ctx.eval(1);
            let should = s.len() == 32 && s.iter().all(|e| matches!(e, El::Byte(_)));
            let case = json!({"kind": "serde_script", "type": sp.name, "script": name});
            ctx.case(&case.to_string());
            match guarded(|| script_de::<T>(&s).is_some()) {
                Ok(acc) => {
                    if acc != should {
                        ctx.violation(&key(&format!("sequence.{}", name)), &format!("sequence script {} accepted={} (a valid input is exactly 32 u8 elements)", name, acc), case);
                    }
                }
                Err(e) => ctx.violation(&key("sequence"), &format!("panic: {}", e), case),
            }
        }
        // JSON shapes
        let arr = |v: Vec<String>| format!("[{}]", v.join(","));
        let good_s: Vec<String> = b.iter().map(|x| x.to_string()).collect();
        let mut jsons: Vec<(String, String, bool)> = vec![
            ("exact".into(), arr(good_s.clone()), true),
            ("short31".into(), arr(good_s[..31].to_vec()), false),
            ("long33".into(), arr([good_s.clone(), vec!["1".into()]].concat()), false),
            ("long34".into(), arr([good_s.clone(), vec!["1".into(), "2".into()]].concat()), false),
            ("empty".into(), "[]".into(), false),
            ("null".into(), "null".into(), false),
            ("string".into(), "\"abc\"".into(), false),
            ("map".into(), "{}".into(), false),
            ("number".into(), "5".into(), false),
        ];
        for (tag, bad) in [("str", "\"x\""), ("300", "300"), ("null", "null"), ("neg", "-1"), ("float", "1.5"), ("arr", "[1]")] {
            for pos in [0usize, 31] {
                let mut v = good_s.clone();
                v[pos] = bad.to_string();
                jsons.push((format!("bad_{}@{}", tag, pos), arr(v), false));
            }
            // trailing ill-typed element after 32 valid ones
            jsons.push((format!("trailing_{}", tag), arr([good_s.clone(), vec![bad.to_string()]].concat()), false));
            jsons.push((format!("trailing_{}_then_valid", tag), arr([good_s.clone(), vec![bad.to_string(), "1".into()]].concat()), false));
        }
        for (name, js, should) in jsons {
            ctx.eval(1);
            let case = json!({"kind": "serde_json_shape", "type": sp.name, "shape": name, "json": js});
            ctx.case(&case.to_string());
            match guarded(|| serde_json::from_str::<T>(&js).is_ok()) {
                Ok(acc) => {
                    if acc != should {
                        ctx.violation(&key(&format!("json.{}", name)), &format!("JSON shape {} accepted={} expected {}", name, acc, should), case);
                    }
                }
                Err(e) => ctx.violation(&key("json"), &format!("panic: {}", e), case),
            }
        }
        // bincode: truncated inputs and byte strings of other lengths
        for n in [0usize, 1, 31, 39] {
            ctx.eval(1);
            let mut full = Vec::new();
            if sp.length_prefixed {
                full.extend_from_slice(&32u64.to_le_bytes());
            }
            full.extend_from_slice(&b);
            let cut = &full[..n.min(full.len() - 1)];
            if let Ok(true) = guarded(|| bincode::deserialize::<T>(cut).is_ok()) {
                ctx.violation(&key("bincode.truncated"), "truncated input accepted", json!({"kind": "serde_bincode_trunc", "type": sp.name, "len": cut.len()}));
            }
        }
        if sp.length_prefixed {
            for n in [0u64, 31, 33, 64] {
                ctx.eval(1);
                let mut v = n.to_le_bytes().to_vec();
                v.extend(std::iter::repeat(b[0]).take(n as usize));
                if let Ok(true) = guarded(|| bincode::deserialize::<T>(&v).is_ok()) {
                    ctx.violation(&key("bincode.length"), &format!("byte string of length {} accepted", n), json!({"kind": "serde_bincode_len", "type": sp.name, "len": n}));
                }
            }
            // the Deserialize impl driven with a bare byte string of every length 0..=70
            for n in 0..=70usize {
                ctx.eval(1);
                let bytes: Vec<u8> = (0..n).map(|i| b[i % 32]).collect();
                let r = guarded(|| T::deserialize(BytesDeserializer::<VErr>::new(&bytes)).is_ok());
                if r != Ok(n == 32) {
                    ctx.violation(&key("bytes.length"), &format!("visit_bytes with {} bytes: {:?}", n, r), json!({"kind": "serde_bytes_len", "type": sp.name, "len": n}));
                }
            }
        }
    }
}

pub fn run(ctx: &Ctx) {
    let quick = ctx.quick();
    let lm = l();
    // value alphabets as 32-byte strings
    let mut sc_bytes: Vec<[u8; 32]> = alpha::sc_ints().into_iter().filter(|x| x.bits() <= 256).map(|x| x.to_le32()).collect();
    for k in 0..8u64 {
        sc_bytes.push(lm.add(&U::from_u64(k)).to_le32());
        sc_bytes.push(lm.sub(&U::from_u64(k + 1)).to_le32());
    }
    let ed_bytes: Vec<[u8; 32]> = c03::encodings(true).into_iter().take(if quick { 1200 } else { 2000 }).collect();
    let ris_bytes: Vec<[u8; 32]> = c06::encodings(true).into_iter().take(if quick { 700 } else { 2000 }).collect();
    let any_bytes: Vec<[u8; 32]> = alpha::fe_bytes().into_iter().take(60).collect();
    let seed_bytes: Vec<[u8; 32]> = seeds(8).into_iter().chain(any_bytes.iter().cloned().take(20)).collect();

    use curve25519_dalek::edwards::{CompressedEdwardsY, EdwardsPoint};
    use curve25519_dalek::montgomery::MontgomeryPoint;
    use curve25519_dalek::ristretto::{CompressedRistretto, RistrettoPoint};
    use curve25519_dalek::scalar::Scalar;
    use ed25519_dalek::{SigningKey, VerifyingKey};
    use x25519_dalek::{PublicKey, StaticSecret};

    drive::<Scalar>(ctx, &Spec { name: "Scalar", native_ok: &|b| U::from_le(b) < lm, length_prefixed: false, canon: &|b| *b, derived_newtype: false }, &sc_bytes,
        &|b| Option::from(Scalar::from_canonical_bytes(*b)), &|v| v.to_bytes());
    drive::<EdwardsPoint>(ctx, &Spec { name: "EdwardsPoint", native_ok: &|b| ed::decompress(b).is_some(), length_prefixed: false, canon: &|b| ed::decompress(b).map(|p| p.compress()).unwrap_or(*b), derived_newtype: false }, &ed_bytes,
        &|b| CompressedEdwardsY(*b).decompress(), &|v| {
            // an accepted non-canonical encoding re-encodes canonically: compare as points
            v.compress().0
        });
    drive::<CompressedEdwardsY>(ctx, &Spec { name: "CompressedEdwardsY", native_ok: &|_| true, length_prefixed: false, canon: &|b| *b, derived_newtype: false }, &ed_bytes[..ed_bytes.len().min(200)],
        &|b| Some(CompressedEdwardsY(*b)), &|v| v.0);
    drive::<RistrettoPoint>(ctx, &Spec { name: "RistrettoPoint", native_ok: &|b| ris::decode(b).is_some(), length_prefixed: false, canon: &|b| *b, derived_newtype: false }, &ris_bytes,
        &|b| CompressedRistretto(*b).decompress(), &|v| v.compress().0);
    drive::<CompressedRistretto>(ctx, &Spec { name: "CompressedRistretto", native_ok: &|_| true, length_prefixed: false, canon: &|b| *b, derived_newtype: false }, &ris_bytes[..ris_bytes.len().min(200)],
        &|b| Some(CompressedRistretto(*b)), &|v| v.0);
    drive::<MontgomeryPoint>(ctx, &Spec { name: "MontgomeryPoint", native_ok: &|_| true, length_prefixed: false, canon: &|b| *b, derived_newtype: true }, &any_bytes,
        &|b| Some(MontgomeryPoint(*b)), &|v| v.0);
    drive::<PublicKey>(ctx, &Spec { name: "x25519::PublicKey", native_ok: &|_| true, length_prefixed: false, canon: &|b| *b, derived_newtype: true }, &any_bytes,
        &|b| Some(PublicKey::from(*b)), &|v| v.to_bytes());
    drive::<StaticSecret>(ctx, &Spec { name: "x25519::StaticSecret", native_ok: &|_| true, length_prefixed: false, canon: &|b| *b, derived_newtype: true }, &any_bytes,
        &|b| Some(StaticSecret::from(*b)), &|v| v.to_bytes());
    drive::<SigningKey>(ctx, &Spec { name: "SigningKey", native_ok: &|_| true, length_prefixed: true, canon: &|b| *b, derived_newtype: false }, &seed_bytes,
        &|b| Some(SigningKey::from_bytes(b)), &|v| v.to_bytes());
    drive::<VerifyingKey>(ctx, &Spec { name: "VerifyingKey", native_ok: &|b| ed::decompress(b).is_some(), length_prefixed: true, canon: &|b| *b, derived_newtype: false }, &ed_bytes[..ed_bytes.len().min(600)],
        &|b| VerifyingKey::from_bytes(b).ok(), &|v| v.to_bytes());
    // over-long inputs that are meaningful in *another* encoding of the same type: the 64 keypair bytes (seed || public
    // key) offered where a 32-byte secret key is expected, in every container the formats can deliver
    for (i, sd) in seeds(4).iter().enumerate() {
        ctx.eval(4);
        let kp = SigningKey::from_bytes(sd).to_keypair_bytes();
        let case = json!({"kind": "serde_keypair_as_secret", "seed": hex(sd)});
        let mut bin = (64u64).to_le_bytes().to_vec();
        bin.extend_from_slice(&kp);
        let json_seq = format!("[{}]", kp.iter().map(|x| x.to_string()).collect::<Vec<_>>().join(","));
        let outcomes = [
            ("bincode byte string of 64", guarded(|| bincode::deserialize::<SigningKey>(&bin).is_ok())),
            ("JSON sequence of 64", guarded(|| serde_json::from_str::<SigningKey>(&json_seq).is_ok())),
            ("bincode byte string of 64 as VerifyingKey", guarded(|| bincode::deserialize::<VerifyingKey>(&bin).is_ok())),
            ("JSON sequence of 64 as VerifyingKey", guarded(|| serde_json::from_str::<VerifyingKey>(&json_seq).is_ok())),
        ];
        for (what, r) in outcomes {
            match r {
                Ok(false) => {}
                Ok(true) => ctx.violation("serde.keypair_bytes_as_key", &format!("{}: the 64 keypair bytes were accepted where a 32-byte key is expected", what), case.clone()),
                Err(e) => ctx.violation("serde.keypair_bytes_as_key", &format!("{}: panic: {}", what, e), case.clone()),
            }
        }
        // and the native slice constructors: exactly 32 bytes
        for n in [0usize, 31, 33, 63, 64, 65] {
            let slice = &[&kp[..], &kp[..]].concat()[..n];
            if SigningKey::try_from(slice).is_ok() || VerifyingKey::try_from(slice).is_ok() {
                ctx.violation("serde.keypair_bytes_as_key", &format!("try_from(&[u8]) accepts {} bytes", n), case.clone());
            }
        }
        let _ = i;
    }
    // Signature: external crate; round trip and length validation only
    {
        use ed25519_dalek::Signature;
        for (i, s) in seeds(4).iter().enumerate() {
            ctx.eval(1);
            let sig = crate::model::eddsa::sign(s, &[i as u8], None);
            let v = Signature::from_bytes(&sig);
            let rb: Option<Signature> = bincode::serialize(&v).ok().and_then(|b| bincode::deserialize(&b).ok());
            let rj: Option<Signature> = serde_json::to_string(&v).ok().and_then(|b| serde_json::from_str(&b).ok());
            if rb.map(|x| x.to_bytes()) != Some(sig) || rj.map(|x| x.to_bytes()) != Some(sig) {
                ctx.violation("serde.Signature.roundtrip", "round trip", json!({"kind": "serde_sig", "sig": hex(&sig)}));
            }
            let js63 = format!("[{}]", sig[..63].iter().map(|x| x.to_string()).collect::<Vec<_>>().join(","));
            if serde_json::from_str::<Signature>(&js63).is_ok() {
                ctx.violation("serde.Signature.length", "63-element signature accepted", json!({"kind": "serde_sig", "sig": hex(&sig)}));
            }
        }
    }
    // EdwardsPoint: a non-canonical but accepted encoding must deserialise to the same *point*
    // and re-serialise canonically (checked above through compress()).
    ctx.sample_tag("serde", json!({"type": "SigningKey", "input": "JSON array of 32 valid bytes followed by \"x\"", "expected": "rejected"}));
}
