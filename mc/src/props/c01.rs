//! C01 — field arithmetic is exact arithmetic mod 2^255-19 (serial representations; the
//! 4-lane vector fields are in c01v.rs).
//!
//! Explicit-state exploration of a register machine over the *real* `FieldElement`, started
//! from raw-limb lattice corners, in lock-step with the integer model.

use crate::alpha;
use crate::ev::{guarded, Ctx};
use crate::model::fp::{self, Fp};
use crate::model::nat::{hex, U};
use curve25519_dalek::verif::{Fe, FE_LIMBS, FIELD_IMPL};
use rayon::prelude::*;
use serde_json::json;
use stateright::{Model, Property};
use std::sync::Arc;

/// Per-limb description of the serial representation compiled in.
pub struct Spec {
    pub n: usize,
    pub pos: Vec<usize>,      // bit position of limb i
    pub width: Vec<usize>,    // nominal width of limb i
    pub max_adm: Vec<u64>,    // largest admissible limb value (documented headroom)
}

pub fn spec() -> Spec {
    let n = FE_LIMBS;
    let (pos, width): (Vec<usize>, Vec<usize>) = if n == 5 {
        ((0..5).map(|i| 51 * i).collect(), vec![51; 5])
    } else {
        (
            vec![0, 26, 51, 77, 102, 128, 153, 179, 204, 230],
            (0..10).map(|i| if i % 2 == 0 { 26 } else { 25 }).collect(),
        )
    };
    let max_adm: Vec<u64> = match FIELD_IMPL {
        // "limbs < 2^54" (debug_assert in mul/pow2k, comment in sub)
        "u64" => vec![(1u64 << 54) - 1; 5],
        // "limbs are allowed to grow ... up to 2^(25+b) or 2^(26+b), where b = 1.75"
        "u32" => width
            .iter()
            .map(|w| ((1u64 << *w) as f64 * 2f64.powf(1.75)).floor() as u64)
            .collect(),
        // fiat-crypto tight field element bounds
        "fiat_u64" => vec![1u64 << 51; 5],
        "fiat_u32" => width.iter().map(|w| 1u64 << *w).collect(),
        _ => unreachable!(),
    };
    Spec { n, pos, width, max_adm }
}

impl Spec {
    /// Lattice values for limb i, simplest first.
    pub fn lattice(&self, i: usize) -> Vec<u64> {
        let w = self.width[i];
        let m = (1u64 << w) - 1;
        let mut v = vec![0, 1, m, 1 << w];
        match FIELD_IMPL {
            "u64" => v.extend([
                (1 << w) + 19 * (1 << 13),
                (1 << 52) - 1,
                self.max_adm[i],
                19,
                m - 18,
                m - 19,
                1 << 53,
            ]),
            "u32" => v.extend([self.max_adm[i], (1 << (w + 1)) - 1, m - 18, 19, (1 << w) + (1 << (w - 1))]),
            _ => v.extend([m - 18, 19, m - 1, 2]),
        }
        v.retain(|x| *x <= self.max_adm[i]);
        let mut seen = std::collections::HashSet::new();
        v.retain(|x| seen.insert(*x));
        v
    }
    pub fn value(&self, limbs: &[u64]) -> Fp {
        let mut acc = U::ZERO;
        for i in 0..self.n {
            acc = acc.add(&U::from_u64(limbs[i]).shl(self.pos[i]));
        }
        Fp::new(&acc)
    }
    pub fn admissible(&self, limbs: &[u64]) -> bool {
        (0..self.n).all(|i| limbs[i] <= self.max_adm[i])
    }
    /// Decode index `idx` in mixed radix over the first k lattice values per limb.
    pub fn vector(&self, lat: &[Vec<u64>], k: usize, mut idx: usize) -> Vec<u64> {
        let mut v = Vec::with_capacity(self.n);
        for i in 0..self.n {
            let kk = k.min(lat[i].len());
            v.push(lat[i][idx % kk]);
            idx /= kk;
        }
        v
    }
    pub fn count(&self, lat: &[Vec<u64>], k: usize) -> usize {
        (0..self.n).map(|i| k.min(lat[i].len())).product()
    }
}

#[derive(Clone, Copy, Debug, PartialEq, Eq, Hash, serde::Serialize, serde::Deserialize)]
pub enum Un {
    Neg,
    Negate,
    Square,
    Square2,
    MulSelf,
    AddSelf,
    SubSelf,
    Pow2k(u32),
    Invert,
    Invsqrt,
    CondNegate,
    RoundTrip,
}

pub const UNARY: &[Un] = &[
    Un::Neg,
    Un::Negate,
    Un::Square,
    Un::Square2,
    Un::MulSelf,
    Un::AddSelf,
    Un::SubSelf,
    Un::Pow2k(1),
    Un::Pow2k(2),
    Un::Pow2k(5),
    Un::Invert,
    Un::Invsqrt,
    Un::CondNegate,
    Un::RoundTrip,
];

#[derive(Clone, Copy, Debug, PartialEq, Eq, Hash, serde::Serialize, serde::Deserialize)]
pub enum Bin {
    Add,
    AddAssign,
    Sub,
    SubAssign,
    Mul,
    MulAssign,
    SqrtRatio,
}
pub const BINARY: &[Bin] = &[Bin::Add, Bin::Sub, Bin::Mul, Bin::AddAssign, Bin::SubAssign, Bin::MulAssign, Bin::SqrtRatio];

/// Apply a unary op to the real element and to the model; returns (real, model) or a
/// violation description.
pub fn apply_un(sp: &Spec, op: Un, a: &Fe, av: &Fp) -> Result<(Fe, Fp), String> {
    let r = guarded(|| match op {
        Un::Neg => a.neg(),
        Un::Negate => a.negate(),
        Un::Square => a.square(),
        Un::Square2 => a.square2(),
        Un::MulSelf => a.mul(a),
        Un::AddSelf => a.add(a),
        Un::SubSelf => a.sub(a),
        Un::Pow2k(k) => a.pow2k(k),
        Un::Invert => a.invert(),
        Un::Invsqrt => a.invsqrt().1,
        Un::CondNegate => a.conditional_negate(true),
        Un::RoundTrip => Fe::from_bytes(&a.as_bytes()),
    })
    .map_err(|e| format!("panic: {}", e))?;
    let m = match op {
        Un::Neg | Un::Negate | Un::CondNegate => av.neg(),
        Un::Square | Un::MulSelf => av.sq(),
        Un::Square2 => av.sq().add(&av.sq()),
        Un::AddSelf => av.add(av),
        Un::SubSelf => Fp::ZERO,
        Un::Pow2k(k) => {
            let mut x = *av;
            for _ in 0..k {
                x = x.sq();
            }
            x
        }
        Un::Invert => av.inv(),
        Un::Invsqrt => fp::sqrt_ratio_i(&Fp::ONE, av).1,
        Un::RoundTrip => *av,
    };
    if op == Un::Invsqrt {
        // also the choice bit
        let (c, _) = a.invsqrt();
        let (mc, _) = fp::sqrt_ratio_i(&Fp::ONE, av);
        if c != mc {
            return Err(format!("invsqrt choice bit {} but model says {}", c, mc));
        }
    }
    check_value(sp, &r, &m).map(|_| (r, m))
}

pub fn apply_bin(sp: &Spec, op: Bin, a: &Fe, av: &Fp, b: &Fe, bv: &Fp) -> Result<(Fe, Fp), String> {
    let r = guarded(|| match op {
        Bin::Add => a.add(b),
        Bin::AddAssign => a.add_assign(b),
        Bin::Sub => a.sub(b),
        Bin::SubAssign => a.sub_assign(b),
        Bin::Mul => a.mul(b),
        Bin::MulAssign => a.mul_assign(b),
        Bin::SqrtRatio => Fe::sqrt_ratio_i(a, b).1,
    })
    .map_err(|e| format!("panic: {}", e))?;
    let m = match op {
        Bin::Add | Bin::AddAssign => av.add(bv),
        Bin::Sub | Bin::SubAssign => av.sub(bv),
        Bin::Mul | Bin::MulAssign => av.mul(bv),
        Bin::SqrtRatio => fp::sqrt_ratio_i(av, bv).1,
    };
    if op == Bin::SqrtRatio {
        let (c, _) = Fe::sqrt_ratio_i(a, b);
        let (mc, _) = fp::sqrt_ratio_i(av, bv);
        if c != mc {
            return Err(format!("sqrt_ratio_i choice bit {} but model says {}", c, mc));
        }
    }
    check_value(sp, &r, &m).map(|_| (r, m))
}

/// The oracle on one reached representation.
pub fn check_value(sp: &Spec, r: &Fe, m: &Fp) -> Result<(), String> {
    let bytes = guarded(|| r.as_bytes()).map_err(|e| format!("panic in as_bytes: {}", e))?;
    let want = m.to_bytes();
    if bytes != want {
        return Err(format!(
            "as_bytes = {} but exact value is {} (limbs {:?})",
            hex(&bytes),
            hex(&want),
            r.limbs()
        ));
    }
    if bytes[31] & 0x80 != 0 {
        return Err("encoding has bit 255 set".into());
    }
    let lv = sp.value(&r.limbs());
    if lv != *m {
        return Err(format!("limb value {} differs from encoding {}", lv.0.hex(), m.0.hex()));
    }
    if r.is_negative() != m.is_neg() {
        return Err("is_negative disagrees".into());
    }
    if r.is_zero() != m.is_zero() {
        return Err("is_zero disagrees".into());
    }
    Ok(())
}

#[derive(Clone, Debug, PartialEq, Eq, Hash)]
pub struct St {
    depth: u8,
    limbs: Vec<u64>,
    val: Fp,
    bad: Option<String>,
}

#[derive(Clone, Debug, PartialEq, Eq)]
pub enum Act {
    U(Un),
    L(Bin, usize), // a op pool[i]
    R(Bin, usize), // pool[i] op a
}

struct Machine {
    sp: Spec,
    inits: Vec<(Vec<u64>, Fp)>,
    pool: Vec<(Vec<u64>, Fp)>,
    unary: Vec<Un>,
    binary: Vec<Bin>,
    max_depth: u8,
    ctx: Arc<CtxRef>,
}

// stateright needs 'static models; hold raw pointers to the context for counters.
struct CtxRef(*const Ctx);
unsafe impl Send for CtxRef {}
unsafe impl Sync for CtxRef {}
impl CtxRef {
    fn get(&self) -> &Ctx {
        unsafe { &*self.0 }
    }
}

impl Model for Machine {
    type State = St;
    type Action = Act;
    fn init_states(&self) -> Vec<St> {
        self.inits
            .iter()
            .map(|(l, v)| {
                let bad = check_value(&self.sp, &Fe::from_limbs(l), v).err();
                St { depth: 0, limbs: l.clone(), val: *v, bad }
            })
            .collect()
    }
    fn actions(&self, s: &St, out: &mut Vec<Act>) {
        if s.bad.is_some() || s.depth >= self.max_depth || !self.sp.admissible(&s.limbs) {
            return;
        }
        for u in &self.unary {
            out.push(Act::U(*u));
        }
        for b in &self.binary {
            for i in 0..self.pool.len() {
                out.push(Act::L(*b, i));
                if !matches!(b, Bin::Add | Bin::AddAssign) {
                    out.push(Act::R(*b, i));
                }
            }
        }
    }
    fn next_state(&self, s: &St, a: Act) -> Option<St> {
        let x = Fe::from_limbs(&s.limbs);
        let r = match &a {
            Act::U(u) => apply_un(&self.sp, *u, &x, &s.val),
            Act::L(b, i) => {
                let (pl, pv) = &self.pool[*i];
                apply_bin(&self.sp, *b, &x, &s.val, &Fe::from_limbs(pl), pv)
            }
            Act::R(b, i) => {
                let (pl, pv) = &self.pool[*i];
                apply_bin(&self.sp, *b, &Fe::from_limbs(pl), pv, &x, &s.val)
            }
        };
        let c = self.ctx.get();
        c.transitions.fetch_add(1, std::sync::atomic::Ordering::Relaxed);
        Some(match r {
            Ok((fe, v)) => {
                let limbs = fe.limbs();
                if !self.sp.admissible(&limbs) {
                    c.count("machine_states_beyond_headroom_terminal", 1);
                }
                St { depth: s.depth + 1, limbs, val: v, bad: None }
            }
            Err(e) => St {
                depth: s.depth + 1,
                limbs: s.limbs.clone(),
                val: s.val,
                bad: Some(format!("{:?} on limbs {:?}: {}", a, s.limbs, e)),
            },
        })
    }
    fn properties(&self) -> Vec<Property<Self>> {
        vec![Property::always("exact mod p", |_, s: &St| s.bad.is_none())]
    }
}

pub fn run(ctx: &Ctx) {
    let sp = spec();
    let lat: Vec<Vec<u64>> = (0..sp.n).map(|i| sp.lattice(i)).collect();
    let quick = ctx.quick();
    ctx.bound("field_impl", json!(FIELD_IMPL));

    // ---- (1) depth-1 product enumeration: every unary op on the k_unary lattice
    let k_un = match (sp.n, quick) {
        (5, true) => 7,
        (5, false) => 11,
        (_, true) => 2,
        (_, false) => 3,
    };
    let palettes: Vec<Vec<Vec<u64>>> = if sp.n == 10 && k_un == 2 {
        // several 2-value palettes instead of one
        let pick = |a: usize, b: usize| -> Vec<Vec<u64>> {
            lat.iter().map(|l| vec![l[a.min(l.len() - 1)], l[b.min(l.len() - 1)]]).collect()
        };
        vec![pick(0, 4), pick(2, 4), pick(1, 3), pick(2, 3)]
    } else {
        vec![lat.clone()]
    };
    ctx.bound("k_unary", json!(k_un));
    let nontriv = std::sync::atomic::AtomicU64::new(0);
    for pal in &palettes {
        let total = sp.count(pal, k_un);
        (0..total).into_par_iter().for_each(|idx| {
            let limbs = sp.vector(pal, k_un, idx);
            let a = Fe::from_limbs(&limbs);
            let av = sp.value(&limbs);
            if limbs.iter().enumerate().any(|(i, x)| *x >> sp.width[i] != 0) {
                nontriv.fetch_add(1, std::sync::atomic::Ordering::Relaxed);
            }
            for op in UNARY {
                ctx.eval(1);
                if let Err(e) = apply_un(&sp, *op, &a, &av) {
                    ctx.violation(
                        &format!("fe.{:?}", op),
                        &e,
                        json!({"kind": "unary", "op": op, "limbs": limbs}),
                    );
                }
            }
            if idx == total / 2 {
                ctx.sample_tag("unary", json!({"op": "all unary ops", "limbs": limbs, "value": av.0.hex()}));
            }
        });
    }
    ctx.count("unary_inputs_with_unreduced_limb", nontriv.load(std::sync::atomic::Ordering::Relaxed));

    // ---- (2) depth-1 product enumeration: every binary op on pairs
    let k_pair = match (sp.n, quick) {
        (5, true) => 4,
        (5, false) => 5,
        (_, _) => 2,
    };
    ctx.bound("k_pair", json!(k_pair));
    let pair_pals: Vec<Vec<Vec<u64>>> = if sp.n == 10 {
        let pick = |a: usize, b: usize| -> Vec<Vec<u64>> {
            lat.iter().map(|l| vec![l[a.min(l.len() - 1)], l[b.min(l.len() - 1)]]).collect()
        };
        if quick {
            vec![pick(0, 4)]
        } else {
            vec![pick(0, 4), pick(2, 4), pick(1, 3), pick(2, 3), pick(0, 2), pick(3, 4)]
        }
    } else {
        vec![lat.clone()]
    };
    for pal in &pair_pals {
        let total = sp.count(pal, k_pair);
        let stride = if sp.n == 10 && quick { 3 } else { 1 };
        (0..total).into_par_iter().for_each(|i| {
            let la = sp.vector(pal, k_pair, i);
            let a = Fe::from_limbs(&la);
            let av = sp.value(&la);
            let mut j = i % stride;
            while j < total {
                let lb = sp.vector(pal, k_pair, j);
                let b = Fe::from_limbs(&lb);
                let bv = sp.value(&lb);
                // the compound-assignment impls are separate bodies in the fiat backends (and the base of the binary
                // operators in the others)
                for op in [Bin::Add, Bin::Sub, Bin::Mul, Bin::AddAssign, Bin::SubAssign, Bin::MulAssign] {
                    ctx.eval(1);
                    if let Err(e) = apply_bin(&sp, op, &a, &av, &b, &bv) {
                        ctx.violation(
                            &format!("fe.{:?}", op),
                            &e,
                            json!({"kind": "binary", "op": op, "a": la, "b": lb}),
                        );
                    }
                }
                j += stride;
            }
        });
        ctx.count("binary_pairs", (total * ((total + stride - 1) / stride)) as u64);
    }

    // ---- (3) decoding / encoding / sqrt_ratio on the field-value alphabet
    let fb = alpha::fe_bytes();
    let mut noncanon = 0u64;
    for b in &fb {
        ctx.eval(1);
        let m = Fp::from_bytes(b);
        let int = U::from_le(b).low_bits(255);
        if int >= fp::p() {
            noncanon += 1;
        }
        let r = Fe::from_bytes(b);
        if let Err(e) = check_value(&sp, &r, &m) {
            ctx.violation("fe.from_bytes", &e, json!({"kind": "from_bytes", "bytes": hex(b)}));
        }
        ctx.record(&format!("fe.from_bytes/{}", hex(b)), &r.as_bytes());
    }
    ctx.count("decoded_values_in_p_to_2^255", noncanon);
    let fvals: Vec<Fp> = alpha::fe_ints().iter().map(Fp::new).collect();
    let nf = if quick { 40.min(fvals.len()) } else { fvals.len() };
    let cases = std::sync::Mutex::new([0u64; 4]);
    (0..nf).into_par_iter().for_each(|i| {
        for j in 0..nf {
            let (u, v) = (fvals[i], fvals[j]);
            let (fu, fv) = (Fe::from_bytes(&u.to_bytes()), Fe::from_bytes(&v.to_bytes()));
            ctx.eval(1);
            let (mc, mr) = fp::sqrt_ratio_i(&u, &v);
            let k = if u.is_zero() { 0 } else if v.is_zero() { 1 } else if mc { 2 } else { 3 };
            cases.lock().unwrap()[k] += 1;
            match guarded(|| Fe::sqrt_ratio_i(&fu, &fv)) {
                Ok((c, r)) => {
                    if c != mc || r.as_bytes() != mr.to_bytes() {
                        ctx.violation(
                            "fe.sqrt_ratio_i",
                            &format!("got ({}, {}) want ({}, {})", c, hex(&r.as_bytes()), mc, hex(&mr.to_bytes())),
                            json!({"kind": "sqrt_ratio", "u": hex(&u.to_bytes()), "v": hex(&v.to_bytes())}),
                        );
                    }
                }
                Err(e) => ctx.violation("fe.sqrt_ratio_i", &format!("panic: {}", e), json!({"kind": "sqrt_ratio", "u": hex(&u.to_bytes()), "v": hex(&v.to_bytes())})),
            }
        }
    });
    {
        let c = cases.lock().unwrap();
        ctx.count("sqrt_ratio_case_u_zero", c[0]);
        ctx.count("sqrt_ratio_case_v_zero", c[1]);
        ctx.count("sqrt_ratio_case_square", c[2]);
        ctx.count("sqrt_ratio_case_nonsquare", c[3]);
    }
    // batch inversion: all sequences of length <= 3 over a pool with zeros
    {
        let pool: Vec<Fp> = vec![Fp::ZERO, Fp::ONE, Fp::from_u64(2), Fp::ONE.neg(), fp::d()];
        let maxn = if quick { 3 } else { 4 };
        let mut seqs: Vec<Vec<usize>> = vec![vec![]];
        let mut frontier = seqs.clone();
        for _ in 0..maxn {
            let mut next = Vec::new();
            for s in &frontier {
                for i in 0..pool.len() {
                    let mut t = s.clone();
                    t.push(i);
                    next.push(t);
                }
            }
            seqs.extend(next.iter().cloned());
            frontier = next;
        }
        for s in &seqs {
            ctx.eval(1);
            let has_zero_only = !s.is_empty() && s.iter().all(|i| pool[*i].is_zero());
            let _ = has_zero_only;
            let xs: Vec<Fe> = s.iter().map(|i| Fe::from_bytes(&pool[*i].to_bytes())).collect();
            match guarded(|| Fe::batch_invert(&xs)) {
                Ok(out) => {
                    for (k, o) in out.iter().enumerate() {
                        let want = pool[s[k]].inv(); // zeros stay zero
                        if o.as_bytes() != want.to_bytes() {
                            ctx.violation("fe.batch_invert", "wrong inverse", json!({"kind": "batch_invert", "seq": s, "index": k}));
                        }
                    }
                }
                Err(e) => ctx.violation("fe.batch_invert", &format!("panic: {}", e), json!({"kind": "batch_invert", "seq": s})),
            }
        }
        ctx.count("batch_invert_sequences", seqs.len() as u64);
    }
    // conditional ops and equality on pairs of representations of equal / different values
    {
        let mut reps: Vec<Vec<u64>> = (0..sp.count(&lat, 2).min(64)).map(|i| sp.vector(&lat, 2, i)).collect();
        // position-tagged representations: every limb differs from every other limb of both operands, so a
        // select/swap/assign that mixes up limb positions (or skips one) cannot go unnoticed
        reps.push((0..sp.n).map(|i| i as u64 + 1).collect());
        reps.push((0..sp.n).map(|i| 100 + i as u64).collect());
        reps.push((0..sp.n).map(|i| ((1u64 << sp.width[i]) - 1) - i as u64).collect());
        reps.push((0..sp.n).map(|i| lat[i].iter().max().unwrap().saturating_sub(7 * i as u64)).collect());
        for la in &reps {
            for lb in &reps {
                ctx.eval(1);
                let (a, b) = (Fe::from_limbs(la), Fe::from_limbs(lb));
                let (av, bv) = (sp.value(la), sp.value(lb));
                let mut errs = vec![];
                if a.ct_eq(&b) != (av == bv) || a.eq(&b) != (av == bv) {
                    errs.push("equality");
                }
                for c in [false, true] {
                    let want = if c { &b } else { &a };
                    if Fe::conditional_select(&a, &b, c).limbs() != want.limbs() {
                        errs.push("conditional_select");
                    }
                    if a.conditional_assign(&b, c).limbs() != want.limbs() {
                        errs.push("conditional_assign");
                    }
                    let (x, y) = Fe::conditional_swap(&a, &b, c);
                    if (x.limbs(), y.limbs()) != if c { (b.limbs(), a.limbs()) } else { (a.limbs(), b.limbs()) } {
                        errs.push("conditional_swap");
                    }
                }
                for e in errs {
                    ctx.violation(&format!("fe.{}", e), "conditional/equality op disagrees with model", json!({"kind": "cond", "a": la, "b": lb}));
                }
            }
        }
    }

    // ---- (4) the register machine (explicit-state BFS with stateright)
    let uniform: Vec<Vec<u64>> = {
        // all limbs at the same lattice index, plus alternating patterns
        let kmax = lat.iter().map(|l| l.len()).min().unwrap();
        let mut v = Vec::new();
        for k in 0..kmax {
            v.push((0..sp.n).map(|i| lat[i][k]).collect::<Vec<u64>>());
        }
        for (a, b) in [(0usize, 4usize), (4, 0), (2, 4), (4, 2), (3, 1)] {
            let (a, b) = (a.min(kmax - 1), b.min(kmax - 1));
            v.push((0..sp.n).map(|i| if i % 2 == 0 { lat[i][a] } else { lat[i][b] }).collect());
        }
        v
    };
    let mut inits: Vec<(Vec<u64>, Fp)> = uniform.iter().map(|l| (l.clone(), sp.value(l))).collect();
    let n_bytes_inits = if quick { 12 } else { 40 };
    for x in alpha::fe_ints().iter().take(n_bytes_inits) {
        let fe = Fe::from_bytes(&x.low_bits(255).to_le32());
        inits.push((fe.limbs(), Fp::new(x)));
    }
    let mut pool: Vec<(Vec<u64>, Fp)> = Vec::new();
    for (_, c) in curve25519_dalek::verif::field_constants().iter().take(if quick { 6 } else { 14 }) {
        pool.push((c.limbs(), sp.value(&c.limbs())));
    }
    for l in uniform.iter().take(if quick { 5 } else { 8 }) {
        pool.push((l.clone(), sp.value(l)));
    }
    let max_depth = if quick { 2 } else if ctx.deep { 4 } else { 3 };
    let (unary, binary): (Vec<Un>, Vec<Bin>) = if quick {
        (vec![Un::Neg, Un::Square, Un::Square2, Un::Pow2k(2), Un::Invert], vec![Bin::Add, Bin::Sub, Bin::Mul])
    } else {
        (vec![Un::Neg, Un::Square, Un::Square2, Un::Invert], vec![Bin::Add, Bin::Sub, Bin::Mul])
    };
    let pool_n = if quick { pool.len() } else { pool.len().min(10) };
    pool.truncate(pool_n);
    ctx.bound("machine_depth", json!(max_depth));
    ctx.bound("machine_pool", json!(pool.len()));
    ctx.bound("machine_inits", json!(inits.len()));
    let m = Machine {
        sp: spec(),
        inits,
        pool,
        unary,
        binary,
        max_depth,
        ctx: Arc::new(CtxRef(ctx as *const Ctx)),
    };
    let o = crate::bfs::explore(&m, max_depth as usize, |s| s.bad.clone(), 8);
    crate::bfs::finish(ctx, "fe.machine", &o, max_depth as usize);
    ctx.sample_tag("machine", json!({"note": "BFS over raw limb representations; each transition = one real field operation compared with integer arithmetic mod p", "depth": max_depth}));
    // ---- (5) the 4-lane vector fields this build contains
    crate::props::c01v::run_avx2(ctx);
    crate::props::c01v::run_ifma(ctx);
}
