//! C07 — X25519 and Montgomery-form operations conform to RFC 7748 on all inputs.

use crate::alpha;
use crate::ev::{guarded, Ctx};
use crate::model::ed;
use crate::model::eddsa;
use crate::model::fp::{self, Fp};
use crate::model::mont;
use crate::model::nat::{hex, unhex, U};
use crate::model::zl::l;
use crate::props::c03::pool;
use crate::real::{self, ScriptRng};
use curve25519_dalek::montgomery::MontgomeryPoint;
use rayon::prelude::*;
use serde_json::json;
use std::hash::{Hash, Hasher};
use subtle::ConstantTimeEq;
use x25519_dalek::{EphemeralSecret, PublicKey, ReusableSecret, StaticSecret};

fn a32(v: &[u8]) -> [u8; 32] {
    let mut a = [0u8; 32];
    a.copy_from_slice(v);
    a
}

/// K: 32-byte scalars (clamping-sensitive patterns first).
pub fn scalars(quick: bool) -> Vec<[u8; 32]> {
    let mut v: Vec<[u8; 32]> = vec![[0u8; 32], [0xff; 32]];
    for bit in [0usize, 1, 2, 3, 4, 8, 63, 64, 127, 128, 251, 252, 253, 254, 255] {
        let mut b = [0u8; 32];
        b[bit / 8] |= 1 << (bit % 8);
        v.push(b);
        let mut c = [0xffu8; 32];
        c[bit / 8] &= !(1 << (bit % 8));
        v.push(c);
    }
    for h in [
        "a546e36bf0527c9d3b16154b82465edd62144c0ac1fc5a18506a2244ba449ac4",
        "4b66e9d4d1b4673c5ad22691957d6af5c11b6421e0ea01d42ca4169e7918ba0d",
        "77076d0a7318a57d3c16c17251b26645df4c2f87ebc0992ab177fba51db92c2a",
        "5dab087e624a8a4b79e17f8b83800ee66f3bb1292618b6fd1c2f8b27ff88e0eb",
        "0900000000000000000000000000000000000000000000000000000000000000",
    ] {
        v.push(a32(&unhex(h)));
    }
    for b in [0x55u8, 0xaa, 0x07, 0xf8, 0x80, 0x7f, 0x40, 0xbf] {
        v.push([b; 32]);
    }
    // scalars whose clamped value is l-related (order of the base point divides k*8...)
    let lm = l();
    for x in [lm, lm.sub(&U::ONE), lm.shl(3).low_bits(256), lm.add(&U::ONE)] {
        v.push(x.to_le32());
    }
    let mut seen = std::collections::HashSet::new();
    v.retain(|x| seen.insert(*x));
    let _ = quick;
    v
}

/// A-U: u-coordinates.
pub fn us(quick: bool) -> Vec<[u8; 32]> {
    let p = fp::p();
    let mut ints: Vec<U> = vec![
        U::from_u64(9),
        U::ZERO,
        U::ONE,
        p.sub(&U::ONE), // u = -1
        p,
        p.add(&U::ONE),
        U::from_u64(2), // on the twist? decided by the model
        U::from_u64(3),
        U::from_u64(4),
        U::from_u64(5),
        U::from_u64(6),
        U::from_u64(7),
        U::from_u64(8),
        U::from_u64(10),
        p.sub(&U::from_u64(9)),
        p.add(&U::from_u64(9)),
        U::pow2(255).sub(&U::ONE),
        U::pow2(255).sub(&U::from_u64(20)),
        U::pow2(254),
    ];
    // RFC 7748 / libsodium small-order u's (orders 8: two values)
    for h in [
        "e0eb7a7c3b41b8ae1656e3faf19fc46ada098deb9c32b1fd866205165f49b800",
        "5f9c95bca3508c24b1d0b1559c83ef5b04445cc4581c8e86d8224eddd09f1157",
    ] {
        ints.push(U::from_le(&unhex(h)));
        let x = U::from_le(&unhex(h)).add(&p);
        if x.bits() <= 255 {
            ints.push(x);
        }
    }
    for h in [
        "e6db6867583030db3594c1a424b15f7c726624ec26b3353b10a903a6d0ab1c4c",
        "e5210f12786811d3f4b7959d0538ae2c31dbe7106fc03c3efc4cd549c715a493",
        "de9edb7d7b7dc1b4d35b61c2ece435373f8343c85b78674dadfc7e146f882b4f",
    ] {
        ints.push(U::from_le(&unhex(h)));
    }
    // images of Edwards pool points (incl. torsion)
    for k in pool(5, true) {
        ints.push(k.pt.to_montgomery_u().0);
    }
    ints.extend(alpha::fe_ints().into_iter().take(if quick { 50 } else { 80 }));
    let mut out = Vec::new();
    let mut seen = std::collections::HashSet::new();
    for x in ints {
        let b = x.low_bits(256).to_le32();
        if seen.insert(b) {
            out.push(b);
        }
    }
    // bit 255 set variants of the first few
    for b in out.clone().iter().take(12) {
        let mut c = *b;
        c[31] |= 0x80;
        if seen.insert(c) {
            out.push(c);
        }
    }
    out
}

fn hash_of(m: &MontgomeryPoint) -> u64 {
    let mut h = std::collections::hash_map::DefaultHasher::new();
    m.hash(&mut h);
    h.finish()
}

pub fn run(ctx: &Ctx) {
    let quick = ctx.quick();
    let ks = scalars(quick);
    let uu = us(quick);
    ctx.bound("scalars", json!(ks.len()));
    ctx.bound("u_coordinates", json!(uu.len()));
    let stats = std::sync::Mutex::new([0u64; 4]); // zero outputs, twist inputs, non-canonical u, to_edwards None
    for u in &uu {
        let f = Fp::from_bytes(u);
        let mut s = stats.lock().unwrap();
        if !mont::on_curve(&f) {
            s[1] += 1;
        }
        if U::from_le(u).low_bits(255) >= fp::p() || u[31] & 0x80 != 0 {
            s[2] += 1;
        }
    }
    // ---- byte-level X25519 and every typed path
    ks.par_iter().for_each(|k| {
        let want_pub = mont::x25519(k, &Fp::from_u64(9).to_bytes());
        // public key derivation through the Edwards basepoint
        ctx.eval(4);
        let r = guarded(|| {
            let e = EphemeralSecret::random_from_rng(ScriptRng::new(k));
            let r = ReusableSecret::random_from_rng(ScriptRng::new(k));
            let s1 = StaticSecret::random_from_rng(ScriptRng::new(k));
            let s2 = StaticSecret::from(*k);
            (
                PublicKey::from(&e).to_bytes(),
                PublicKey::from(&r).to_bytes(),
                PublicKey::from(&s1).to_bytes(),
                PublicKey::from(&s2).to_bytes(),
                s2.to_bytes(),
                x25519_dalek::x25519(*k, x25519_dalek::X25519_BASEPOINT_BYTES),
            )
        });
        let case = json!({"kind": "x25519_pub", "k": hex(k)});
        ctx.case(&case.to_string());
        match r {
            Ok((a, b, c, d, sb, e)) => {
                if a != want_pub || b != want_pub || c != want_pub || d != want_pub || e != want_pub {
                    ctx.violation("x.public_key", &format!("public key differs from X25519(k, 9) = {}", hex(&want_pub)), case.clone());
                }
                if sb != *k {
                    ctx.violation("x.static_secret_bytes", "StaticSecret does not keep its bytes unclamped", case.clone());
                }
                ctx.record(&format!("x.public_key/{}", hex(k)), &a);
            }
            Err(e) => ctx.violation("x.public_key", &format!("panic: {}", e), case.clone()),
        }
        // the public clamping function itself, and the scalar types built on it
        {
            ctx.eval(1);
            let got = curve25519_dalek::scalar::clamp_integer(*k);
            if got != mont::clamp(k) {
                ctx.violation("x.clamp_integer", &format!("got {} want {}", hex(&got), hex(&mont::clamp(k))), json!({"kind": "clamp", "k": hex(k)}));
            }
            if curve25519_dalek::scalar::clamp_integer(got) != got {
                ctx.violation("x.clamp_integer", "clamping is not idempotent", json!({"kind": "clamp", "k": hex(k)}));
            }
        }
        for u in &uu {
            ctx.eval(1);
            let want = mont::x25519(k, u);
            let case = json!({"kind": "x25519", "k": hex(k), "u": hex(u)});
            ctx.case(&case.to_string());
            let r = guarded(|| {
                let raw = x25519_dalek::x25519(*k, *u);
                let pk = PublicKey::from(*u);
                let e = EphemeralSecret::random_from_rng(ScriptRng::new(k)).diffie_hellman(&pk);
                let rr = ReusableSecret::random_from_rng(ScriptRng::new(k)).diffie_hellman(&pk);
                let ss = StaticSecret::from(*k).diffie_hellman(&pk);
                let mp = MontgomeryPoint(*u).mul_clamped(*k).to_bytes();
                // the operator forms on the clamped (unreduced, bit 254 set) integer: the documented use of an
                // unreduced scalar; all three impls
                {
                    let sc = curve25519_dalek::verif::scalar_from_raw_bytes(mont::clamp(k));
                    let p = MontgomeryPoint(*u);
                    let mut q = p;
                    q *= &sc;
                    assert!((&p * &sc).to_bytes() == mp && (&sc * &p).to_bytes() == mp && q.to_bytes() == mp, "MontgomeryPoint * clamped integer differs from mul_clamped");
                    #[cfg(feature = "legacy")]
                    {
                        #[allow(deprecated)]
                        let fb = curve25519_dalek::scalar::Scalar::from_bits(mont::clamp(k));
                        assert!((&p * &fb).to_bytes() == mp, "MontgomeryPoint * Scalar::from_bits(clamped) differs from mul_clamped");
                    }
                }
                (raw, e.to_bytes(), e.was_contributory(), rr.to_bytes(), rr.was_contributory(), ss.to_bytes(), ss.was_contributory(), mp, pk.to_bytes())
            });
            match r {
                Ok((raw, e, ec, rr, rc, ss, sc, mp, pkb)) => {
                    ctx.record(&format!("x.x25519/{}/{}", hex(k), hex(u)), &raw);
                    if raw != want {
                        ctx.violation("x.x25519", &format!("got {} want {}", hex(&raw), hex(&want)), case.clone());
                    }
                    if e != want || rr != want || ss != want || mp != want {
                        ctx.violation("x.diffie_hellman", "typed Diffie-Hellman differs from X25519(k, u)", case.clone());
                    }
                    let contributory = want != [0u8; 32];
                    if !contributory {
                        stats.lock().unwrap()[0] += 1;
                    }
                    if ec != contributory || rc != contributory || sc != contributory {
                        ctx.violation("x.was_contributory", &format!("was_contributory = {} but shared secret is {}", ec, hex(&want)), case.clone());
                    }
                    if pkb != *u {
                        ctx.violation("x.public_key_bytes", "PublicKey does not keep its bytes", case.clone());
                    }
                }
                Err(e) => ctx.violation("x.x25519", &format!("panic: {}", e), case),
            }
        }
    });
    // both parties derive the same secret
    {
        let n = ks.len();
        (0..n).into_par_iter().for_each(|i| {
            for j in 0..n {
                ctx.eval(1);
                let (a, b) = (StaticSecret::from(ks[i]), StaticSecret::from(ks[j]));
                let (pa, pb) = (PublicKey::from(&a), PublicKey::from(&b));
                if a.diffie_hellman(&pb).to_bytes() != b.diffie_hellman(&pa).to_bytes() {
                    ctx.violation("x.agreement", "the two parties derive different secrets", json!({"kind": "x_agree", "a": hex(&ks[i]), "b": hex(&ks[j])}));
                }
            }
        });
    }
    // ---- Montgomery point times (canonical) scalar: ladder over bits 254..0 of the scalar
    {
        let scs: Vec<U> = alpha::sc_reduced(if quick { 24 } else { 68 });
        scs.par_iter().for_each(|s| {
            let sc = real::scalar(s);
            for u in &uu {
                ctx.eval(1);
                let want = mont::ladder(s, 255, &Fp::from_bytes(u)).to_bytes();
                let case = json!({"kind": "mont_mul", "scalar": s.hex(), "u": hex(u)});
                ctx.case(&case.to_string());
                match guarded(|| ((&MontgomeryPoint(*u) * &sc).to_bytes(), (&sc * &MontgomeryPoint(*u)).to_bytes(), { let mut m = MontgomeryPoint(*u); m *= &sc; m.to_bytes() })) {
                    Ok((a, b, c)) => {
                        ctx.record(&format!("mont.mul_u/{}/{}", s.hex(), hex(u)), &a);
                        if a != want || b != want || c != want {
                            ctx.violation("mont.mul", &format!("got {} want {}", hex(&a), hex(&want)), case);
                        }
                    }
                    Err(e) => ctx.violation("mont.mul", &format!("panic: {}", e), case),
                }
            }
        });
    }
    // ---- the bit-string ladder: all bit strings of length <= L, and long patterns
    {
        let lmax = if quick { 10 } else { 11 };
        let mut strings: Vec<Vec<bool>> = Vec::new();
        for len in 0..=lmax {
            for v in 0..(1u32 << len) {
                strings.push((0..len).rev().map(|i| v >> i & 1 == 1).collect());
            }
        }
        for len in [255usize, 256, 257, 300, 512] {
            strings.push(vec![true; len]);
            strings.push(vec![false; len]);
            strings.push((0..len).map(|i| i % 2 == 0).collect());
            strings.push((0..len).map(|i| i == 0).collect());
            strings.push((0..len).map(|i| i == len - 1).collect());
        }
        ctx.bound("bit_strings", json!(strings.len()));
        let usel: Vec<[u8; 32]> = uu.iter().cloned().take(if quick { 10 } else { 24 }).collect();
        strings.par_iter().for_each(|bits| {
            for u in &usel {
                ctx.eval(1);
                let want = mont::ladder_bits_be(bits, &Fp::from_bytes(u)).to_bytes();
                let case = json!({"kind": "mul_bits_be", "bits": bits.iter().map(|b| if *b { '1' } else { '0' }).collect::<String>(), "u": hex(u)});
                ctx.case(&case.to_string());
                match guarded(|| MontgomeryPoint(*u).mul_bits_be(bits.iter().cloned()).to_bytes()) {
                    Ok(g) => {
                        if g != want {
                            ctx.violation("mont.mul_bits_be", &format!("got {} want {}", hex(&g), hex(&want)), case);
                        }
                    }
                    Err(e) => ctx.violation("mont.mul_bits_be", &format!("panic: {}", e), case),
                }
            }
        });
        ctx.exhaustive_note("all bit strings of length 0..=lmax");
    }
    // ---- conversions
    for k in pool(if quick { 4 } else { 10 }, true) {
        ctx.eval(1);
        let want = k.pt.to_montgomery_u().to_bytes();
        let got = k.real.to_montgomery().to_bytes();
        ctx.record(&format!("ed.to_montgomery/{}", k.name), &got);
        if got != want {
            ctx.violation("ed.to_montgomery", &format!("got {} want {}", hex(&got), hex(&want)), json!({"kind": "to_montgomery", "point": k.name}));
        }
        // and back, both signs: must give +-P when defined
        for sign in [0u8, 1] {
            ctx.eval(1);
            let m = mont::to_edwards(&Fp::from_bytes(&want), sign == 1);
            let g = guarded(|| MontgomeryPoint(want).to_edwards(sign));
            match (g, m) {
                (Ok(Some(p)), Some(mp)) => {
                    if p.compress().0 != mp.compress() {
                        ctx.violation("mont.to_edwards", "wrong point", json!({"kind": "to_edwards", "u": hex(&want), "sign": sign}));
                    }
                }
                (Ok(None), None) => {}
                (g, m) => ctx.violation("mont.to_edwards", &format!("got {:?}, model is_some = {}", g.map(|x| x.is_some()), m.is_some()), json!({"kind": "to_edwards", "u": hex(&want), "sign": sign})),
            }
        }
    }
    uu.par_iter().for_each(|u| {
        for sign in [0u8, 1] {
            ctx.eval(1);
            let m = mont::to_edwards(&Fp::from_bytes(u), sign == 1);
            let case = json!({"kind": "to_edwards", "u": hex(u), "sign": sign});
            ctx.case(&case.to_string());
            match guarded(|| MontgomeryPoint(*u).to_edwards(sign)) {
                Ok(g) => {
                    ctx.record(&format!("mont.to_edwards/{}/{}", hex(u), sign), &g.map(|p| p.compress().0.to_vec()).unwrap_or_default());
                    match (g, m) {
                        (Some(p), Some(mp)) => {
                            if p.compress().0 != mp.compress() {
                                ctx.violation("mont.to_edwards", "wrong point", case);
                            } else if p.to_montgomery().to_bytes() != Fp::from_bytes(u).to_bytes() {
                                ctx.violation("mont.to_edwards", "round trip through to_montgomery differs", case);
                            }
                        }
                        (None, None) => {
                            stats.lock().unwrap()[3] += 1;
                        }
                        (g, m) => ctx.violation("mont.to_edwards", &format!("accepts={} model={}", g.is_some(), m.is_some()), case),
                    }
                }
                Err(e) => ctx.violation("mont.to_edwards", &format!("panic: {}", e), case),
            }
        }
    });
    // ---- equality and hashing modulo p
    for a in &uu {
        for b in &uu {
            ctx.eval(1);
            let same = Fp::from_bytes(a) == Fp::from_bytes(b);
            let (ma, mb) = (MontgomeryPoint(*a), MontgomeryPoint(*b));
            if (ma == mb) != same || bool::from(ma.ct_eq(&mb)) != same || (same && hash_of(&ma) != hash_of(&mb)) {
                ctx.violation("mont.eq", "equality / hash is not modulo p", json!({"kind": "mont_eq", "a": hex(a), "b": hex(b)}));
            }
        }
    }
    // ---- Ed25519 -> X25519 key conversions
    #[cfg(feature = "ed")]
    {
        let seeds: Vec<[u8; 32]> = ks.iter().cloned().take(12).collect();
        for (i, sa) in seeds.iter().enumerate() {
            ctx.eval(3);
            let key = eddsa::keygen(sa);
            let sk = ed25519_dalek::SigningKey::from_bytes(sa);
            let h = eddsa::sha512(&[sa]);
            let case = json!({"kind": "ed_to_x", "seed": hex(sa)});
            ctx.case(&case.to_string());
            if sk.to_scalar_bytes()[..] != h[..32] {
                ctx.violation("sig.to_scalar_bytes", "differs from the low half of SHA-512(seed)", case.clone());
            }
            if real::scalar_int(&sk.to_scalar()) != key.a.rem(&l()) {
                ctx.violation("sig.to_scalar", "differs from the clamped, reduced scalar", case.clone());
            }
            let a_pt = ed::decompress(&key.public).unwrap();
            let xpub = sk.verifying_key().to_montgomery().to_bytes();
            if xpub != a_pt.to_montgomery_u().to_bytes() {
                ctx.violation("sig.to_montgomery", "verifying key conversion", case.clone());
            }
            // DH between converted keys
            let sb = &seeds[(i + 1) % seeds.len()];
            let skb = ed25519_dalek::SigningKey::from_bytes(sb);
            let xb = skb.verifying_key().to_montgomery().to_bytes();
            let s1 = x25519_dalek::x25519(sk.to_scalar_bytes(), xb);
            let s2 = x25519_dalek::x25519(skb.to_scalar_bytes(), xpub);
            if s1 != s2 || s1 != mont::x25519(&a32(&h[..32]), &xb) {
                ctx.violation("sig.x25519_dh", "DH between converted Ed25519 keys", case.clone());
            }
        }
    }
    let s = stats.lock().unwrap();
    ctx.count("pairs_with_zero_output", s[0]);
    ctx.count("u_on_twist", s[1]);
    ctx.count("u_noncanonical_or_bit255", s[2]);
    ctx.count("to_edwards_none", s[3]);
    ctx.sample_tag("x25519", json!({"k": hex(&ks[ks.len() / 2]), "u": hex(&uu[3]), "note": "u = p-1 (u = -1)"}));
}
