//! C04 — every scalar-multiplication algorithm returns sum s_i * P_i.

use crate::alpha;
use crate::ev::{guarded, Ctx};
use crate::model::ed::{self, Pt};
use crate::model::nat::{hex, U};
use crate::model::ris;
use crate::model::zl::{l, Zl};
use crate::props::c03::{self, pool, Known};
use crate::props::c01;
use crate::real;
use curve25519_dalek::edwards::EdwardsPoint;
use curve25519_dalek::montgomery::MontgomeryPoint;
use curve25519_dalek::ristretto::{CompressedRistretto, RistrettoPoint, VartimeRistrettoPrecomputation};
use curve25519_dalek::scalar::Scalar;
use curve25519_dalek::traits::{Identity, MultiscalarMul, VartimeMultiscalarMul, VartimePrecomputedMultiscalarMul};
use curve25519_dalek::edwards::VartimeEdwardsPrecomputation;
use curve25519_dalek::verif as hook;
use rayon::prelude::*;
use serde_json::json;
use std::sync::atomic::{AtomicU64, Ordering};

/// s * (a*B + T_j) for an integer s (not necessarily reduced).
pub fn expect_mul(s: &U, k: &Known) -> Pt {
    let (a, j) = k.aj.as_ref().expect("known point");
    let aa = Zl::new(s).mul(&Zl(*a)).0;
    let jj = ((s.low_u64() % 8) * (*j as u64) % 8) as u8;
    ed::from_aj(&aa, jj)
}

/// sum s_i * P_i in O(n) through the (a, j) decomposition.
pub fn expect_sum(terms: &[(U, &Known)]) -> Pt {
    let mut aa = Zl::ZERO;
    let mut jj = 0u64;
    for (s, k) in terms {
        let (a, j) = k.aj.as_ref().expect("known point");
        aa = aa.add(&Zl::new(s).mul(&Zl(*a)));
        jj = (jj + (s.low_u64() % 8) * (*j as u64)) % 8;
    }
    ed::from_aj(&aa.0, jj as u8)
}

fn raw_scalar(s: &U) -> Scalar {
    assert!(s.bits() <= 255);
    hook::scalar_from_raw_bytes(s.to_le32())
}

fn sum_digits(d: &[i8], shift: impl Fn(usize) -> usize) -> (U, U) {
    let (mut pos, mut neg) = (U::ZERO, U::ZERO);
    for (i, x) in d.iter().enumerate() {
        if *x > 0 {
            pos = pos.add(&U::from_u64(*x as u64).shl(shift(i)));
        } else if *x < 0 {
            neg = neg.add(&U::from_u64((-(*x as i64)) as u64).shl(shift(i)));
        }
    }
    (pos, neg)
}

/// Recoding contracts (hook H4).
fn check_recodings(ctx: &Ctx, s: &U, stats: &[AtomicU64; 6]) {
    let sc = raw_scalar(s);
    let case = |name: &str| json!({"kind": "recoding", "which": name, "scalar": s.hex()});
    // radix 16
    ctx.eval(1);
    match guarded(|| hook::as_radix_16(&sc)) {
        Ok(d) => {
            let (p, n) = sum_digits(&d, |i| 4 * i);
            let ok_val = p >= n && p.sub(&n) == *s;
            let ok_rng = d[..63].iter().all(|x| (-8..8).contains(x)) && (-8..=8).contains(&d[63]);
            if d[63] == 8 {
                stats[0].fetch_add(1, Ordering::Relaxed);
            }
            if d.iter().any(|x| *x == -8) {
                stats[1].fetch_add(1, Ordering::Relaxed);
            }
            if !ok_val || !ok_rng {
                ctx.violation("digits.as_radix_16", &format!("value ok: {}, range ok: {}, digits {:?}", ok_val, ok_rng, &d[..]), case("as_radix_16"));
            }
        }
        Err(e) => ctx.violation("digits.as_radix_16", &format!("panic: {}", e), case("as_radix_16")),
    }
    // radix 2^w
    for w in 5..=8usize {
        ctx.eval(1);
        match guarded(|| (hook::as_radix_2w(&sc, w), hook::to_radix_2w_size_hint(w))) {
            Ok((d, cnt)) => {
                let (p, n) = sum_digits(&d, |i| w * i);
                let half = 1i16 << (w - 1);
                let ok_val = p >= n && p.sub(&n) == *s;
                let want_cnt = (256 + w - 1) / w + if w == 8 { 1 } else { 0 };
                let ok_rng = d[..cnt - 1].iter().all(|x| (-half..half).contains(&(*x as i16)))
                    && (-half..=half).contains(&(d[cnt - 1] as i16))
                    && d[cnt..].iter().all(|x| *x == 0)
                    && cnt == want_cnt;
                if w == 8 && d[32] != 0 {
                    stats[2].fetch_add(1, Ordering::Relaxed);
                }
                if d.iter().any(|x| *x as i16 == -half) {
                    stats[3].fetch_add(1, Ordering::Relaxed);
                }
                if !ok_val || !ok_rng {
                    ctx.violation(&format!("digits.as_radix_2w.{}", w), &format!("value ok: {}, range ok: {}, digits {:?}", ok_val, ok_rng, &d[..]), case(&format!("as_radix_2w({})", w)));
                }
            }
            Err(e) => ctx.violation(&format!("digits.as_radix_2w.{}", w), &format!("panic: {}", e), case(&format!("as_radix_2w({})", w))),
        }
    }
    // NAF
    for w in [2usize, 5, 6, 7, 8] {
        ctx.eval(1);
        match guarded(|| hook::non_adjacent_form(&sc, w)) {
            Ok(d) => {
                let (p, n) = sum_digits(&d, |i| i);
                let ok_val = p >= n && p.sub(&n) == *s;
                let bound = 1i16 << (w - 1);
                let ok_odd = d.iter().all(|x| *x == 0 || (*x & 1 == 1 && (*x as i16).abs() < bound));
                let mut ok_adj = true;
                let mut last: Option<usize> = None;
                for (i, x) in d.iter().enumerate() {
                    if *x != 0 {
                        if let Some(pv) = last {
                            if i - pv < w {
                                ok_adj = false;
                            }
                            if (pv / 64) != (i / 64) {
                                stats[4].fetch_add(1, Ordering::Relaxed);
                            }
                        }
                        last = Some(i);
                    }
                }
                if !ok_val || !ok_odd || !ok_adj {
                    ctx.violation(&format!("digits.non_adjacent_form.{}", w), &format!("value ok: {}, odd/small ok: {}, non-adjacent ok: {}", ok_val, ok_odd, ok_adj), case(&format!("non_adjacent_form({})", w)));
                }
            }
            Err(e) => ctx.violation(&format!("digits.non_adjacent_form.{}", w), &format!("panic: {}", e), case(&format!("non_adjacent_form({})", w))),
        }
    }
    // bits
    ctx.eval(1);
    let bits = hook::bits_le(&sc);
    if bits.len() != 256 || (0..256).any(|i| bits[i] != s.bit(i)) {
        ctx.violation("digits.bits_le", "bit iterator differs from the integer", case("bits_le"));
    }
    stats[5].fetch_add(1, Ordering::Relaxed);
}

fn cmp(ctx: &Ctx, name: &str, got: Result<EdwardsPoint, String>, want: &Pt, case: &serde_json::Value, record_key: Option<&str>) {
    ctx.eval(1);
    // operations that exist only with the precomputed-tables feature go to the tables digest
    let tname;
    let rec_name = if name.contains("table") { tname = format!("T:{}", name); tname.as_str() } else { name };
    match got {
        Ok(p) => {
            let enc = p.compress().0;
            if let Some(k) = record_key {
                ctx.record(&format!("{}/{}", rec_name, k), &enc);
            }
            if enc != want.compress() {
                let mut c = case.clone();
                c["entry"] = json!(name);
                ctx.violation(name, &format!("got {} want {}", hex(&enc), hex(&want.compress())), c);
            } else {
                // the returned point must also be a sound *internal* state: consistent extended coordinates
                // (compress never reads T) within the representation bounds of the operations applied next
                let follow = guarded(|| -> Result<(), String> {
                    c03::check_point(&c01::spec(), &p, want, &None, false)?;
                    let b = curve25519_dalek::constants::ED25519_BASEPOINT_POINT;
                    if (&p + &b).compress().0 != want.add(&ed::basepoint()).compress() {
                        return Err("result + B is wrong".into());
                    }
                    if (&b - &p).compress().0 != ed::basepoint().sub(want).compress() {
                        return Err("B - result is wrong".into());
                    }
                    if p.mul_by_cofactor().compress().0 != want.dbl().dbl().dbl().compress() {
                        return Err("[8]result is wrong".into());
                    }
                    if (-&p).compress().0 != want.neg().compress() {
                        return Err("-result is wrong".into());
                    }
                    Ok(())
                });
                let msg = match follow {
                    Ok(Ok(())) => None,
                    Ok(Err(e)) => Some(e),
                    Err(e) => Some(format!("panic: {}", e)),
                };
                if let Some(e) = msg {
                    let mut c = case.clone();
                    c["entry"] = json!(name);
                    ctx.violation(name, &format!("result encodes correctly but is not usable: {}", e), c);
                }
            }
        }
        Err(e) => {
            let mut c = case.clone();
            c["entry"] = json!(name);
            ctx.violation(name, &format!("panic: {}", e), c);
        }
    }
}

/// All single-scalar entry points on (scalar s, point k).  `unreduced`: s >= l, only the
/// entry points documented for integers below 2^255 are driven.
fn single(ctx: &Ctx, s: &U, k: &Known, is_base: bool, heavy: bool) {
    let canonical = *s < l();
    let sc = if canonical { real::scalar(s) } else { raw_scalar(s) };
    let want = expect_mul(s, k);
    let case = json!({"kind": "single", "scalar": s.hex(), "point": k.name});
    ctx.case(&case.to_string());
    let key = format!("{}/{}", s.hex(), k.name);
    let rk = if canonical { Some(key.as_str()) } else { None };
    let p = k.real;
    cmp(ctx, "ed.mul", guarded(|| &p * &sc), &want, &case, rk);
    cmp(ctx, "ed.mul_rev", guarded(|| &sc * &p), &want, &case, None);
    cmp(ctx, "ed.mul_assign", guarded(|| { let mut q = p; q *= &sc; q }), &want, &case, None);
    // vartime double-base: s*P + 0*B and 0*P + s*B' handled below; here a = s, b = 0 and b = s
    cmp(ctx, "ed.vartime_double_scalar_mul_basepoint.a", guarded(|| EdwardsPoint::vartime_double_scalar_mul_basepoint(&sc, &p, &Scalar::ZERO)), &want, &case, rk);
    if is_base {
        cmp(ctx, "ed.mul_base", guarded(|| EdwardsPoint::mul_base(&sc)), &want, &case, rk);
        cmp(ctx, "ed.vartime_double_scalar_mul_basepoint.b", guarded(|| EdwardsPoint::vartime_double_scalar_mul_basepoint(&Scalar::ZERO, &p, &sc)), &want, &case, rk);
        #[cfg(feature = "tables")]
        {
            use curve25519_dalek::constants::ED25519_BASEPOINT_TABLE;
            use curve25519_dalek::traits::BasepointTable;
            cmp(ctx, "ed.basepoint_table.mul", guarded(|| ED25519_BASEPOINT_TABLE * &sc), &want, &case, rk);
            cmp(ctx, "ed.basepoint_table.mul_base", guarded(|| ED25519_BASEPOINT_TABLE.mul_base(&sc)), &want, &case, None);
        }
        // Montgomery: s*B as u-coordinate (canonical scalars; the ladder takes the bits of s)
        ctx.eval(1);
        match guarded(|| MontgomeryPoint::mul_base(&sc)) {
            Ok(m) => {
                if m.0 != want.to_montgomery_u().to_bytes() {
                    ctx.violation("mont.mul_base", "u-coordinate differs", case.clone());
                }
            }
            Err(e) => ctx.violation("mont.mul_base", &format!("panic: {}", e), case.clone()),
        }
    }
    // Montgomery ladder on the image of P (torsion allowed; identity maps to 0)
    {
        ctx.eval(1);
        let u = MontgomeryPoint(k.pt.to_montgomery_u().to_bytes());
        match guarded(|| (&u * &sc, &sc * &u)) {
            Ok((m1, m2)) => {
                let wu = want.to_montgomery_u().to_bytes();
                // s*P = identity or P of order 2 (u = 0 for both (0,1) and... (0,-1) has 1-y = 2, u = 0): model handles via to_montgomery_u
                if m1.0 != wu || m2.0 != wu {
                    ctx.violation("mont.mul", &format!("got {} want {}", hex(&m1.0), hex(&wu)), case.clone());
                }
                if let Some(k2) = rk {
                    ctx.record(&format!("mont.mul/{}", k2), &m1.0);
                }
            }
            Err(e) => ctx.violation("mont.mul", &format!("panic: {}", e), case.clone()),
        }
    }
    #[cfg(feature = "tables")]
    if heavy {
        use curve25519_dalek::edwards::{EdwardsBasepointTable, EdwardsBasepointTableRadix128, EdwardsBasepointTableRadix256, EdwardsBasepointTableRadix32, EdwardsBasepointTableRadix64};
        use curve25519_dalek::traits::BasepointTable;
        macro_rules! tab {
            ($t:ty, $n:expr) => {
                cmp(ctx, concat!("ed.table.", $n, ".mul_base"), guarded(|| <$t>::create(&p).mul_base(&sc)), &want, &case, rk);
            };
        }
        tab!(EdwardsBasepointTable, "radix16");
        tab!(EdwardsBasepointTableRadix32, "radix32");
        tab!(EdwardsBasepointTableRadix64, "radix64");
        tab!(EdwardsBasepointTableRadix128, "radix128");
        tab!(EdwardsBasepointTableRadix256, "radix256");
    }
    let _ = heavy;
    // Ristretto wrappers (points of the even subgroup only: j = 0 here)
    if k.aj.as_ref().map(|x| x.1) == Some(0) && canonical {
        let rp = CompressedRistretto(ris::encode(&k.pt)).decompress();
        ctx.eval(1);
        match rp {
            None => ctx.violation("ris.decompress", "model encoding rejected", case.clone()),
            Some(rp) => {
                let wenc = ris::encode(&want);
                let got = guarded(|| ((&rp * &sc).compress().0, (&sc * &rp).compress().0));
                match got {
                    Ok((g1, g2)) => {
                        if g1 != wenc || g2 != wenc {
                            ctx.violation("ris.mul", &format!("got {} want {}", hex(&g1), hex(&wenc)), case.clone());
                        }
                        ctx.record(&format!("ris.mul/{}", key), &g1);
                    }
                    Err(e) => ctx.violation("ris.mul", &format!("panic: {}", e), case.clone()),
                }
                if is_base {
                    ctx.eval(1);
                    match guarded(|| RistrettoPoint::mul_base(&sc).compress().0) {
                        Ok(g) => {
                            if g != wenc {
                                ctx.violation("ris.mul_base", "differs", case.clone());
                            }
                        }
                        Err(e) => ctx.violation("ris.mul_base", &format!("panic: {}", e), case.clone()),
                    }
                    #[cfg(feature = "tables")]
                    {
                        use curve25519_dalek::constants::RISTRETTO_BASEPOINT_TABLE;
                        ctx.eval(1);
                        match guarded(|| (RISTRETTO_BASEPOINT_TABLE * &sc).compress().0) {
                            Ok(g) => {
                                if g != wenc {
                                    ctx.violation("ris.basepoint_table.mul", "differs", case.clone());
                                }
                            }
                            Err(e) => ctx.violation("ris.basepoint_table.mul", &format!("panic: {}", e), case.clone()),
                        }
                    }
                }
            }
        }
    }
}

/// Clamped entry points on 32 arbitrary bytes.
fn clamped(ctx: &Ctx, bytes: &[u8; 32], k: &Known, is_base: bool) {
    let s = U::from_le(&crate::model::mont::clamp(bytes));
    let want = expect_mul(&s, k);
    let case = json!({"kind": "clamped", "bytes": hex(bytes), "point": k.name});
    ctx.case(&case.to_string());
    let key = format!("{}/{}", hex(bytes), k.name);
    let p = k.real;
    cmp(ctx, "ed.mul_clamped", guarded(|| p.mul_clamped(*bytes)), &want, &case, Some(&key));
    if is_base {
        cmp(ctx, "ed.mul_base_clamped", guarded(|| EdwardsPoint::mul_base_clamped(*bytes)), &want, &case, Some(&key));
        #[cfg(feature = "tables")]
        {
            use curve25519_dalek::constants::ED25519_BASEPOINT_TABLE;
            use curve25519_dalek::traits::BasepointTable;
            cmp(ctx, "ed.basepoint_table.mul_base_clamped", guarded(|| ED25519_BASEPOINT_TABLE.mul_base_clamped(*bytes)), &want, &case, None);
        }
        ctx.eval(1);
        match guarded(|| MontgomeryPoint::mul_base_clamped(*bytes)) {
            Ok(m) => {
                if m.0 != want.to_montgomery_u().to_bytes() {
                    ctx.violation("mont.mul_base_clamped", "u differs", case.clone());
                }
            }
            Err(e) => ctx.violation("mont.mul_base_clamped", &format!("panic: {}", e), case.clone()),
        }
    }
    ctx.eval(1);
    let u = MontgomeryPoint(k.pt.to_montgomery_u().to_bytes());
    match guarded(|| u.mul_clamped(*bytes)) {
        Ok(m) => {
            if m.0 != want.to_montgomery_u().to_bytes() {
                ctx.violation("mont.mul_clamped", "u differs", case.clone());
            }
        }
        Err(e) => ctx.violation("mont.mul_clamped", &format!("panic: {}", e), case.clone()),
    }
}

/// Multiscalar entry points for n terms: points cycle through `pts`, scalars through `scs`.
fn multi(ctx: &Ctx, n: usize, pts: &[Known], scs: &[U], off: usize, none_at: Option<usize>) {
    let terms: Vec<(U, &Known)> = (0..n).map(|i| (scs[(i * 7 + off) % scs.len()], &pts[(i + off) % pts.len()])).collect();
    let want = expect_sum(&terms);
    let rs: Vec<Scalar> = terms.iter().map(|(s, _)| real::scalar(s)).collect();
    let rp: Vec<EdwardsPoint> = terms.iter().map(|(_, k)| k.real).collect();
    let case = json!({"kind": "multi", "n": n, "offset": off, "none_at": none_at});
    ctx.case(&case.to_string());
    let key = format!("n{}/o{}", n, off);
    if none_at.is_none() {
        cmp(ctx, "ed.multiscalar_mul", guarded(|| EdwardsPoint::multiscalar_mul(rs.iter(), rp.iter())), &want, &case, Some(&key));
        cmp(ctx, "ed.vartime_multiscalar_mul", guarded(|| EdwardsPoint::vartime_multiscalar_mul(rs.iter(), rp.iter())), &want, &case, Some(&key));
    }
    // optional variant
    ctx.eval(1);
    let opts: Vec<Option<EdwardsPoint>> = rp.iter().enumerate().map(|(i, p)| if Some(i) == none_at { None } else { Some(*p) }).collect();
    match guarded(|| EdwardsPoint::optional_multiscalar_mul(rs.iter(), opts.iter().cloned())) {
        Ok(g) => match (g, none_at) {
            (None, Some(_)) => {}
            (Some(p), None) => cmp(ctx, "ed.optional_multiscalar_mul", Ok(p), &want, &case, None),
            (g, _) => ctx.violation("ed.optional_multiscalar_mul", &format!("Some/None: got is_some={} with a None input: {}", g.is_some(), none_at.is_some()), case.clone()),
        },
        Err(e) => ctx.violation("ed.optional_multiscalar_mul", &format!("panic: {}", e), case.clone()),
    }
    // the precomputed optional variant: None among the dynamic points (static part = first half)
    if n >= 1 {
        ctx.eval(1);
        let split = n / 2;
        let (sp, _) = rp.split_at(split);
        let (ss, ds) = rs.split_at(split);
        let dopts = &opts[split..];
        let dyn_none = none_at.map(|i| i >= split).unwrap_or(false);
        let c2 = json!({"kind": "multi_precomputed_optional", "n": n, "offset": off, "split": split, "none_at": none_at});
        ctx.case(&c2.to_string());
        // a None that falls into the static half cannot be expressed (static points are not optional): use the points
        if none_at.is_none() || dyn_none {
            match guarded(|| VartimeEdwardsPrecomputation::new(sp.iter()).optional_mixed_multiscalar_mul(ss.iter(), ds.iter(), dopts.iter().cloned())) {
                Ok(None) if dyn_none => {}
                Ok(Some(p)) if !dyn_none => cmp(ctx, "ed.precomputed.optional_mixed_multiscalar_mul", Ok(p), &want, &c2, None),
                Ok(g) => ctx.violation("ed.precomputed.optional_mixed_multiscalar_mul", &format!("is_some={} with a None dynamic input: {}", g.is_some(), dyn_none), c2.clone()),
                Err(e) => ctx.violation("ed.precomputed.optional_mixed_multiscalar_mul", &format!("panic: {}", e), c2.clone()),
            }
        }
    }
    if none_at.is_some() {
        return;
    }
    // precomputed: split the terms into static (first half) and dynamic
    for split in [0usize, n / 2, n] {
        ctx.eval(1);
        let (sp, dp) = rp.split_at(split);
        let (ss, ds) = rs.split_at(split);
        let c2 = json!({"kind": "multi_precomputed", "n": n, "offset": off, "split": split});
        ctx.case(&c2.to_string());
        let r = guarded(|| {
            let pre = VartimeEdwardsPrecomputation::new(sp.iter());
            assert_eq!(pre.len(), split);
            assert_eq!(pre.is_empty(), split == 0);
            let mixed = pre.vartime_mixed_multiscalar_mul(ss.iter(), ds.iter(), dp.iter());
            let only_static = if split == n { Some(pre.vartime_multiscalar_mul(ss.iter())) } else { None };
            (mixed, only_static)
        });
        match r {
            Ok((m, os)) => {
                cmp(ctx, "ed.precomputed.vartime_mixed_multiscalar_mul", Ok(m), &want, &c2, None);
                if let Some(o) = os {
                    cmp(ctx, "ed.precomputed.vartime_multiscalar_mul", Ok(o), &want, &c2, None);
                }
            }
            Err(e) => ctx.violation("ed.precomputed", &format!("panic: {}", e), c2.clone()),
        }
    }
    // fewer static scalars than static points (documented: the rest are treated as zero)
    if n >= 2 {
        ctx.eval(1);
        let c2 = json!({"kind": "multi_precomputed_short", "n": n, "offset": off});
        ctx.case(&c2.to_string());
        let want2 = expect_sum(&terms[..n - 1]);
        match guarded(|| VartimeEdwardsPrecomputation::new(rp.iter()).vartime_multiscalar_mul(rs[..n - 1].iter())) {
            Ok(g) => cmp(ctx, "ed.precomputed.short_static_scalars", Ok(g), &want2, &c2, None),
            Err(e) => ctx.violation("ed.precomputed.short_static_scalars", &format!("panic: {}", e), c2),
        }
    }
    // Ristretto multiscalar wrappers, on torsion-free points only
    if terms.iter().all(|(_, k)| k.aj.as_ref().unwrap().1 == 0) && n <= 8 {
        ctx.eval(1);
        let rps: Vec<RistrettoPoint> = terms.iter().map(|(_, k)| CompressedRistretto(ris::encode(&k.pt)).decompress().expect("valid")).collect();
        let wenc = ris::encode(&want);
        let r = guarded(|| {
            let a = RistrettoPoint::multiscalar_mul(rs.iter(), rps.iter()).compress().0;
            let b = RistrettoPoint::vartime_multiscalar_mul(rs.iter(), rps.iter()).compress().0;
            let c = RistrettoPoint::optional_multiscalar_mul(rs.iter(), rps.iter().map(|p| Some(*p))).map(|p| p.compress().0);
            let pre = VartimeRistrettoPrecomputation::new(rps.iter());
            let d = pre.vartime_multiscalar_mul(rs.iter()).compress().0;
            // mixed: first point static, the rest dynamic; and the optional form with and without a None
            if n == 0 {
                return (a, b, c, d);
            }
            let pre1 = VartimeRistrettoPrecomputation::new(rps[..1].iter());
            let e = pre1.vartime_mixed_multiscalar_mul(rs[..1].iter(), rs[1..].iter(), rps[1..].iter()).compress().0;
            let f = pre1.optional_mixed_multiscalar_mul(rs[..1].iter(), rs[1..].iter(), rps[1..].iter().map(|p| Some(*p))).map(|p| p.compress().0);
            let g = if n >= 2 {
                pre1.optional_mixed_multiscalar_mul(rs[..1].iter(), rs[1..].iter(), rps[1..].iter().enumerate().map(|(i, p)| if i == 0 { None } else { Some(*p) })).is_none()
                    && RistrettoPoint::optional_multiscalar_mul(rs.iter(), rps.iter().enumerate().map(|(i, p)| if i == n - 1 { None } else { Some(*p) })).is_none()
            } else {
                true
            };
            assert!(e == d && f == Some(d) && g, "Ristretto mixed / optional precomputed variants disagree or ignore a None");
            (a, b, c, d)
        });
        match r {
            Ok((a, b, c, d)) => {
                if a != wenc || b != wenc || c != Some(wenc) || d != wenc {
                    ctx.violation("ris.multiscalar", "wrong sum", case.clone());
                }
            }
            Err(e) => ctx.violation("ris.multiscalar", &format!("panic: {}", e), case.clone()),
        }
    }
}

pub fn run(ctx: &Ctx) {
    let quick = ctx.quick();
    let lm = l();
    // ---- (1) recodings on the digit alphabets (hook H4)
    let mut dig: Vec<U> = Vec::new();
    let bgs16: &[u64] = if quick { &[0, 8] } else { &[0, 7, 8, 15] };
    dig.extend(alpha::digit_scalars(4, bgs16, true));
    for w in 5..=8 {
        let m = (1u64 << w) - 1;
        dig.extend(alpha::digit_scalars(w, &[0, m], !quick));
    }
    let positions: Vec<usize> = if quick { (0..255).filter(|p| p % 8 == 0 || (56..72).contains(p) || (120..136).contains(p) || (184..200).contains(p) || *p > 244).collect() } else { (0..255).collect() };
    for w in [5usize, 8] {
        dig.extend(alpha::naf_scalars(w, &positions, !quick));
    }
    dig.extend(alpha::sc_ints().into_iter().filter(|x| x.bits() <= 255));
    {
        let mut seen = std::collections::HashSet::new();
        dig.retain(|x| seen.insert(*x));
    }
    ctx.bound("recoding_scalars", json!(dig.len()));
    let stats: [AtomicU64; 6] = Default::default();
    dig.par_iter().for_each(|s| check_recodings(ctx, s, &stats));
    ctx.count("radix16_inputs_with_top_digit_8", stats[0].load(Ordering::Relaxed));
    ctx.count("radix16_inputs_with_digit_minus_8", stats[1].load(Ordering::Relaxed));
    ctx.count("radix256_inputs_using_33rd_digit", stats[2].load(Ordering::Relaxed));
    ctx.count("radix2w_inputs_with_digit_minus_half", stats[3].load(Ordering::Relaxed));
    ctx.count("naf_adjacent_nonzero_digits_in_different_words", stats[4].load(Ordering::Relaxed));
    ctx.nontriv(stats[5].load(Ordering::Relaxed));

    // ---- (2) single-scalar entry points
    let pts = pool(if quick { 3 } else { 6 }, true); // a in {1,0,2,...} x all 8 torsion components
    let base = pts.iter().find(|k| k.name == "1*B+T0").unwrap().clone();
    // scalars for entry points: digit alphabets thinned for the quick tier
    let mut ss: Vec<U> = Vec::new();
    ss.extend(alpha::digit_scalars(4, if quick { &[0] } else { &[0, 7, 8, 15] }, !quick));
    for w in 5..=8 {
        ss.extend(alpha::digit_scalars(w, &[0, (1u64 << w) - 1], false).into_iter().step_by(if quick { 3 } else { 1 }));
    }
    let npos: Vec<usize> = positions.iter().cloned().step_by(if quick { 4 } else { 1 }).collect();
    for w in [5usize, 8] {
        ss.extend(alpha::naf_scalars(w, &npos, false));
    }
    ss.extend(alpha::sc_ints().into_iter().filter(|x| x.bits() <= 255));
    // every odd NAF(8)/NAF(5) table index, added to a non-identity accumulator and negated
    for k in (1u64..128).step_by(2) {
        ss.push(U::from_u64(256 + k));
        ss.push(U::from_u64(256 - k));
        ss.push(U::pow2(200).add(&U::from_u64(k).shl(100)));
    }
    {
        let mut seen = std::collections::HashSet::new();
        ss.retain(|x| seen.insert(*x));
    }
    let n_unreduced = ss.iter().filter(|s| **s >= lm).count();
    ctx.bound("single_scalars", json!(ss.len()));
    ctx.count("single_scalars_unreduced_below_2^255", n_unreduced as u64);
    ss.par_iter().enumerate().for_each(|(i, s)| {
        single(ctx, s, &base, true, i % (if quick { 16 } else { 2 }) == 0);
        // a second point with torsion, rotating through the pool
        let k = &pts[i % pts.len()];
        single(ctx, s, k, false, i % (if quick { 64 } else { 4 }) == 1);
        if i == ss.len() / 2 {
            ctx.sample_tag("single", json!({"scalar": s.hex(), "points": ["1*B+T0", k.name], "entry_points": "P*s, s*P, P*=s, mul_base, tables (all radices), vartime double-base, Montgomery, Ristretto"}));
        }
    });
    // every pool point with a few scalars through every entry point incl. tables
    let few: Vec<U> = vec![U::ZERO, U::ONE, U::from_u64(8), lm.sub(&U::ONE), U::pow2(252).sub(&U::ONE), U::pow2(255).sub(&U::ONE), U::pow2(255).sub(&U::pow2(247))];
    pts.par_iter().for_each(|k| {
        for s in &few {
            single(ctx, s, k, k.name == "1*B+T0", true);
        }
    });
    // vartime double-base with both scalars non-trivial
    {
        let sub: Vec<U> = ss.iter().cloned().step_by(if quick { 29 } else { 7 }).collect();
        sub.par_iter().enumerate().for_each(|(i, a)| {
            let b = &sub[(i * 5 + 1) % sub.len()];
            let k = &pts[i % pts.len()];
            let want = expect_mul(a, k).add(&expect_mul(b, &base));
            let (ra, rb) = (if *a < lm { real::scalar(a) } else { raw_scalar(a) }, if *b < lm { real::scalar(b) } else { raw_scalar(b) });
            let case = json!({"kind": "double_base", "a": a.hex(), "b": b.hex(), "point": k.name});
            ctx.case(&case.to_string());
            cmp(ctx, "ed.vartime_double_scalar_mul_basepoint", guarded(|| EdwardsPoint::vartime_double_scalar_mul_basepoint(&ra, &k.real, &rb)), &want, &case, None);
        });
    }
    // clamped variants
    {
        let mut bs: Vec<[u8; 32]> = alpha::sc_ints().iter().map(|x| x.low_bits(256).to_le32()).collect();
        for b in [0u8, 0xff, 0x55, 0xaa, 0x07, 0xf8] {
            bs.push([b; 32]);
        }
        bs.par_iter().enumerate().for_each(|(i, b)| {
            clamped(ctx, b, &base, true);
            clamped(ctx, b, &pts[i % pts.len()], false);
        });
        ctx.count("clamped_inputs", bs.len() as u64);
    }
    // table construction: create(P).basepoint() == P and radix conversions
    #[cfg(feature = "tables")]
    {
        use curve25519_dalek::edwards::{EdwardsBasepointTable, EdwardsBasepointTableRadix128, EdwardsBasepointTableRadix256, EdwardsBasepointTableRadix32, EdwardsBasepointTableRadix64};
        use curve25519_dalek::traits::BasepointTable;
        pts.par_iter().for_each(|k| {
            let case = json!({"kind": "table_basepoint", "point": k.name});
            ctx.case(&case.to_string());
            let p = k.real;
            cmp(ctx, "ed.table.radix16.basepoint", guarded(|| EdwardsBasepointTable::create(&p).basepoint()), &k.pt, &case, None);
            cmp(ctx, "ed.table.radix32.basepoint", guarded(|| EdwardsBasepointTableRadix32::create(&p).basepoint()), &k.pt, &case, None);
            cmp(ctx, "ed.table.radix64.basepoint", guarded(|| EdwardsBasepointTableRadix64::create(&p).basepoint()), &k.pt, &case, None);
            cmp(ctx, "ed.table.radix128.basepoint", guarded(|| EdwardsBasepointTableRadix128::create(&p).basepoint()), &k.pt, &case, None);
            cmp(ctx, "ed.table.radix256.basepoint", guarded(|| EdwardsBasepointTableRadix256::create(&p).basepoint()), &k.pt, &case, None);
            let s = real::scalar(&lm.sub(&U::from_u64(3)));
            let want = expect_mul(&lm.sub(&U::from_u64(3)), k);
            cmp(ctx, "ed.table.convert.16to256", guarded(|| EdwardsBasepointTableRadix256::from(&EdwardsBasepointTable::create(&p)).mul_base(&s)), &want, &case, None);
            cmp(ctx, "ed.table.convert.256to16", guarded(|| EdwardsBasepointTable::from(&EdwardsBasepointTableRadix256::create(&p)).mul_base(&s)), &want, &case, None);
            cmp(ctx, "ed.table.convert.32to64", guarded(|| EdwardsBasepointTableRadix64::from(&EdwardsBasepointTableRadix32::create(&p)).mul_base(&s)), &want, &case, None);
            cmp(ctx, "ed.table.convert.64to128", guarded(|| EdwardsBasepointTableRadix128::from(&EdwardsBasepointTableRadix64::create(&p)).mul_base(&s)), &want, &case, None);
        });
    }

    // ---- (3) multiscalar in all size regimes
    let sizes: Vec<usize> = if quick { vec![0, 1, 2, 3, 4, 8, 189, 190, 191, 499, 500, 800, 801] } else { vec![0, 1, 2, 3, 4, 5, 8, 16, 33, 64, 189, 190, 191, 499, 500, 501, 799, 800, 801, 1000] };
    ctx.bound("multiscalar_sizes", json!(sizes));
    let mpts = pool(if quick { 4 } else { 8 }, true);
    let free: Vec<Known> = mpts.iter().filter(|k| k.aj.as_ref().unwrap().1 == 0).cloned().collect();
    let mscs: Vec<U> = ss.iter().filter(|s| **s < lm).cloned().step_by(3).collect();
    let jobs: Vec<(usize, usize, Option<usize>, bool)> = {
        let mut v = Vec::new();
        for &n in &sizes {
            for off in 0..(if quick { 2 } else { 4 }) {
                v.push((n, off, None, false));
            }
            if n > 0 {
                let mut nones = vec![0, n / 2, n - 1];
                if n <= 4 {
                    nones = (0..n).collect();
                }
                nones.dedup();
                for na in nones {
                    v.push((n, 0, Some(na), false));
                }
            }
            if n <= 8 {
                v.push((n, 1, None, true));
            }
        }
        v
    };
    jobs.par_iter().for_each(|(n, off, none_at, torsion_free)| {
        multi(ctx, *n, if *torsion_free { &free } else { &mpts }, &mscs, *off, *none_at);
    });
    ctx.sample_tag("multi", json!({"sizes": sizes, "entry_points": "multiscalar_mul (CT Straus), vartime_multiscalar_mul / optional (Straus < 190 <= Pippenger), precomputed static/dynamic mixes, Ristretto wrappers"}));
    let _ = (Pt { x: crate::model::fp::Fp::ZERO, y: crate::model::fp::Fp::ONE }, EdwardsPoint::identity());
}
